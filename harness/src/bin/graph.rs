//! C19: the execution graph every host derives from the same program and configuration.
//!
//! The op lines are a *program* (a sequence of public `Stream` API calls naming streams by
//! numbers) plus the host list. For every `host_id` the same program is built on a fresh
//! `StreamContext` and `verif_execution_graph()` dumps what `build_execution_graph` +
//! `NetworkTopology::build` computed on that host (nothing is executed).
//!
//! header: `graph local <parallelism>` | `graph remote`
//! ops:    `host <addr> <base_port> <cores>`            (remote only; host ids in order)
//!         `src <out> <R>`  `map <s>`  `shuffle|groupby|broadcast <s> <out>`  `repl <s> <out> <R>`
//!         `split <s> <out>…`  `merge|zip|join|bjoin <a> <b> <out>`  `sink <s> each|vec`
//!         `iterate <s> <outState> <outItems>`  `isect <R> <R>`  `run <src R> <repl R>` (see below)
//!         with R = `U` | `L<n>` | `H` | `O`.
//! An op naming a missing stream (or a taken output name) is skipped; streams left open at the
//! end get a `for_each` sink.
//! `lost <cores> <n> <k>` runs the tiny real job `stream_par_iter(0..n).replication(Limited(k))
//! .collect_vec()` on `cores` local cores and prints how many elements were lost (regression of the
//! former finding F4: must be 0).
use std::collections::{BTreeMap, BTreeSet};
use std::fmt::Display;
use std::sync::atomic::{AtomicU64, Ordering};
use std::sync::Mutex;
use std::time::Duration;

use nvh::*;
use renoir::config::{ConfigBuilder, HostConfig};
use renoir::operator::{Operator, StreamElement};
use renoir::structure::BlockStructure;
use renoir::verif::{replica_coord, Coord, GraphDump, ScriptOp};
use renoir::{ExecutionMetadata, Replication, RuntimeConfig, Stream, StreamContext};

// ---------------------------------------------------------------------------------------------
// type erasure, so that streams of any operator chain can be kept in one map

trait DynOp: Send {
    fn dyn_setup(&mut self, m: &mut ExecutionMetadata);
    fn dyn_next(&mut self) -> StreamElement<Val>;
    fn dyn_structure(&self) -> BlockStructure;
    fn dyn_clone(&self) -> Box<dyn DynOp>;
    fn dyn_show(&self) -> String;
}

impl<T: Operator<Out = Val> + 'static> DynOp for T {
    fn dyn_setup(&mut self, m: &mut ExecutionMetadata) {
        self.setup(m)
    }
    fn dyn_next(&mut self) -> StreamElement<Val> {
        self.next()
    }
    fn dyn_structure(&self) -> BlockStructure {
        self.structure()
    }
    fn dyn_clone(&self) -> Box<dyn DynOp> {
        Box::new(self.clone())
    }
    fn dyn_show(&self) -> String {
        self.to_string()
    }
}

struct BoxOp(Box<dyn DynOp>);

impl Clone for BoxOp {
    fn clone(&self) -> Self {
        BoxOp(self.0.dyn_clone())
    }
}
impl Display for BoxOp {
    fn fmt(&self, f: &mut std::fmt::Formatter<'_>) -> std::fmt::Result {
        write!(f, "{}", self.0.dyn_show())
    }
}
impl Operator for BoxOp {
    type Out = Val;
    fn setup(&mut self, metadata: &mut ExecutionMetadata) {
        self.0.dyn_setup(metadata)
    }
    fn next(&mut self) -> StreamElement<Val> {
        self.0.dyn_next()
    }
    fn structure(&self) -> BlockStructure {
        self.0.dyn_structure()
    }
}

type S = Stream<BoxOp>;

fn boxed<Op: Operator<Out = Val> + 'static>(s: Stream<Op>) -> S {
    s.add_operator(|prev| BoxOp(Box::new(prev)))
}

/// Apply the letters of a loop body (`m` map, `x` shuffle, `g` group_by, `r` nested replay with
/// the identity body; `r` is ignored when `nested` is false) to the stream handed to the body.
fn apply_body(mut s: S, letters: &str, nested: bool) -> S {
    for ch in letters.chars() {
        s = match ch {
            'm' => boxed(s.map(|v| v)),
            'x' => boxed(s.shuffle()),
            'g' => boxed(s.group_by(|v: &Val| v.clone()).drop_key()),
            'r' if nested => boxed(s.replay(
                1,
                Val::Int(0),
                |s, _| s,
                |_d: &mut i64, _v: Val| {},
                |_s: &mut Val, _d: i64| {},
                |_s: &mut Val| false,
            )),
            _ => s,
        };
    }
    s
}

// ---------------------------------------------------------------------------------------------

fn parse_repl(s: &str) -> Replication {
    match s {
        "U" => Replication::Unlimited,
        "H" => Replication::Host,
        "O" => Replication::One,
        _ => Replication::Limited(s[1..].parse().expect("bad replication")),
    }
}

fn fmt_repl(r: Replication) -> String {
    match r {
        Replication::Unlimited => "U".into(),
        Replication::Host => "H".into(),
        Replication::One => "O".into(),
        Replication::Limited(n) => format!("L{n}"),
    }
}

fn coord(c: &Coord) -> String {
    format!("{}.{}.{}", c.block_id, c.host_id, c.replica_id)
}

fn fmt_dump(out: &mut Vec<String>, d: &GraphDump) {
    for b in &d.blocks {
        let reps: Vec<String> = b.replicas.iter().map(|(c, g)| format!("{}:{g}", coord(c))).collect();
        let ph: Vec<String> = b
            .per_host
            .iter()
            .map(|(h, v)| format!("{h}=[{}]", v.iter().map(coord).collect::<Vec<_>>().join(",")))
            .collect();
        out.push(format!(
            "B {} {} {} {}",
            b.block_id,
            if b.is_only_one_strategy { 1 } else { 0 },
            if reps.is_empty() { "-".into() } else { reps.join(",") },
            if ph.is_empty() { "-".into() } else { ph.join(";") },
        ));
    }
    // links grouped per (producer replica, fragile): `L <from> <fragile> <to>,<to>,…`
    let mut i = 0;
    while i < d.links.len() {
        let (f, _, fr) = d.links[i];
        let mut tos = vec![];
        while i < d.links.len() && d.links[i].0 == f && d.links[i].2 == fr {
            tos.push(coord(&d.links[i].1));
            i += 1;
        }
        out.push(format!("L {} {} {}", coord(&f), if fr { 1 } else { 0 }, tos.join(",")));
    }
    for ((b, h, p), a, port) in &d.addresses {
        out.push(format!("A {b} {h} {p} {a} {port}"));
    }
}

/// Build the program on `ctx`.
fn build(ctx: &StreamContext, ops: &[Vec<String>]) {
    let mut streams: BTreeMap<usize, S> = BTreeMap::new();
    let id = |w: &String| w.parse::<usize>().expect("bad stream id");
    for op in ops {
        match op[0].as_str() {
            "src" => {
                let out = id(&op[1]);
                if streams.contains_key(&out) {
                    continue;
                }
                let r = parse_repl(&op[2]);
                let s = ctx.stream(ScriptOp::<Val>::new(vec![]).with_replication(r));
                streams.insert(out, boxed(s));
            }
            "map" => {
                let s = id(&op[1]);
                if let Some(st) = streams.remove(&s) {
                    streams.insert(s, boxed(st.map(|v| v)));
                }
            }
            "shuffle" | "groupby" | "broadcast" | "repl" => {
                let (s, out) = (id(&op[1]), id(&op[2]));
                if !streams.contains_key(&s) || streams.contains_key(&out) {
                    continue;
                }
                let st = streams.remove(&s).unwrap();
                let n = match op[0].as_str() {
                    "shuffle" => boxed(st.shuffle()),
                    "groupby" => boxed(st.group_by(|v: &Val| v.clone()).drop_key()),
                    "broadcast" => boxed(st.broadcast()),
                    _ => boxed(st.replication(parse_repl(&op[3]))),
                };
                streams.insert(out, n);
            }
            "split" => {
                let s = id(&op[1]);
                let outs: Vec<usize> = op[2..].iter().map(id).collect();
                let mut uniq = outs.clone();
                uniq.sort();
                uniq.dedup();
                if outs.is_empty()
                    || uniq.len() != outs.len()
                    || !streams.contains_key(&s)
                    || outs.iter().any(|o| streams.contains_key(o))
                {
                    continue;
                }
                let st = streams.remove(&s).unwrap();
                // `split` returns [clone_1, …, clone_{n-1}, new_stream]
                for (o, ns) in outs.iter().zip(st.split(outs.len())) {
                    streams.insert(*o, boxed(ns));
                }
            }
            "merge" | "zip" | "join" | "bjoin" => {
                let (a, b, out) = (id(&op[1]), id(&op[2]), id(&op[3]));
                if a == b
                    || !streams.contains_key(&a)
                    || !streams.contains_key(&b)
                    || streams.contains_key(&out)
                {
                    continue;
                }
                let sa = streams.remove(&a).unwrap();
                let sb = streams.remove(&b).unwrap();
                let n = match op[0].as_str() {
                    "merge" => boxed(sa.merge(sb)),
                    "zip" => boxed(sa.zip(sb).map(|(x, _)| x)),
                    "join" => boxed(
                        sa.join(sb, |v: &Val| v.clone(), |v: &Val| v.clone())
                            .drop_key()
                            .map(|(x, _)| x),
                    ),
                    _ => boxed(
                        sa.join_with(sb, |v: &Val| v.clone(), |v: &Val| v.clone())
                            .ship_broadcast_right()
                            .local_hash()
                            .inner()
                            .map(|(_, (x, _))| x),
                    ),
                };
                streams.insert(out, n);
            }
            "sink" => {
                let s = id(&op[1]);
                if let Some(st) = streams.remove(&s) {
                    if op.get(2).map(|s| s.as_str()) == Some("vec") {
                        let _ = st.collect_vec();
                    } else {
                        st.for_each(|_| ());
                    }
                }
            }
            "iterate" => {
                let (s, o1, o2) = (id(&op[1]), id(&op[2]), id(&op[3]));
                if !streams.contains_key(&s)
                    || streams.contains_key(&o1)
                    || streams.contains_key(&o2)
                    || o1 == o2
                {
                    continue;
                }
                let st = streams.remove(&s).unwrap();
                let body: String = op.get(4).cloned().unwrap_or_default();
                let (state, items) = st.iterate(
                    1,
                    0i64,
                    move |s, _| apply_body(boxed(s), &body, true),
                    |_d: &mut i64, _v: Val| {},
                    |_s: &mut i64, _d: i64| {},
                    |_s: &mut i64| false,
                );
                streams.insert(o1, boxed(state.map(Val::Int)));
                streams.insert(o2, boxed(items));
            }
            "replay" => {
                let (s, out) = (id(&op[1]), id(&op[2]));
                if !streams.contains_key(&s) || streams.contains_key(&out) {
                    continue;
                }
                let st = streams.remove(&s).unwrap();
                let body: String = op.get(3).cloned().unwrap_or_default();
                let state = st.replay(
                    1,
                    0i64,
                    move |s, _| apply_body(boxed(s), &body, false),
                    |_d: &mut i64, _v: Val| {},
                    |_s: &mut i64, _d: i64| {},
                    |_s: &mut i64| false,
                );
                streams.insert(out, boxed(state.map(Val::Int)));
            }
            _ => {}
        }
    }
    for (_, st) in streams {
        st.for_each(|_| ());
    }
}

// ---------------------------------------------------------------------------------------------
// running-engine probes (C03): who receives what, observed with `verif::replica_coord()`

/// (key, producer replica, consumer replica)
static PROBE: Mutex<Vec<(u64, Coord, Coord)>> = Mutex::new(vec![]);
static RUN: AtomicU64 = AtomicU64::new(0);

fn probe(k: u64, p: Coord) {
    PROBE.lock().unwrap().push((k, p, replica_coord().unwrap()));
}

fn parse_keys(s: &str) -> Vec<u64> {
    s.split(',').filter(|t| !t.is_empty()).map(|t| t.split(':').next().unwrap().parse().unwrap()).collect()
}

/// `engine gb <key:hash,…>` / `engine join <key:hash,…>` / `engine fwd <R>` on the case's
/// configuration (remote hosts become in-process hosts on distinct loopback addresses).
fn run_engine(c: &Case, op: &[String]) -> Vec<String> {
    let cores: Vec<u64> = if c.header.get(1).map(|s| s.as_str()) == Some("local") {
        vec![c.header[2].parse().unwrap()]
    } else {
        c.ops.iter().filter(|o| o[0] == "host").map(|o| o[3].parse().unwrap()).collect()
    };
    if cores.is_empty() {
        return vec![];
    }
    let total: u64 = cores.iter().sum();
    let n = 2 * total;
    let configs: Vec<RuntimeConfig> = if c.header.get(1).map(|s| s.as_str()) == Some("local") {
        vec![RuntimeConfig::local(cores[0]).unwrap()]
    } else {
        let run = RUN.fetch_add(1, Ordering::SeqCst);
        let pid = std::process::id() as u64;
        let hs: Vec<HostConfig> = cores
            .iter()
            .enumerate()
            .map(|(h, &k)| HostConfig {
                address: format!("127.{}.{}.{}", 1 + (pid + 97) % 250, 1 + (pid / 250 + run) % 250, 1 + h),
                base_port: 21000 + ((pid * 11 + run * 17) % 20000) as u16,
                num_cores: k,
                ssh: Default::default(),
                perf_path: None,
            })
            .collect();
        (0..hs.len())
            .map(|h| ConfigBuilder::new_remote().add_hosts(&hs).host_id(h as u64).build().unwrap())
            .collect()
    };
    PROBE.lock().unwrap().clear();
    let kind = op[1].clone();
    let arg = op.get(2).cloned().unwrap_or_default();
    let (tx, rx) = std::sync::mpsc::channel();
    let nconf = configs.len();
    for config in configs {
        let (kind, arg, tx) = (kind.clone(), arg.clone(), tx.clone());
        std::thread::spawn(move || {
            let r = std::panic::catch_unwind(std::panic::AssertUnwindSafe(|| {
                let ctx = StreamContext::new(config);
                match kind.as_str() {
                    "gb" => {
                        let keys = parse_keys(&arg);
                        ctx.stream_par_iter(0..n)
                            .flat_map(move |_| keys.clone())
                            .map(|k| (k, replica_coord().unwrap()))
                            .group_by(|x: &(u64, Coord)| x.0)
                            .for_each(|(k, (_, p))| probe(k, p));
                    }
                    "join" => {
                        let keys = parse_keys(&arg);
                        let keys2 = keys.clone();
                        let l = ctx
                            .stream_par_iter(0..n)
                            .flat_map(move |_| keys.clone())
                            .map(|k| (k, replica_coord().unwrap()));
                        let r = ctx
                            .stream_par_iter(0..n)
                            .flat_map(move |_| keys2.clone())
                            .map(|k| (k, replica_coord().unwrap()));
                        l.join(r, |x: &(u64, Coord)| x.0, |x: &(u64, Coord)| x.0)
                            .for_each(|(k, (a, b))| {
                                probe(k, a.1);
                                probe(k + (1 << 32), b.1);
                            });
                    }
                    _ => {
                        ctx.stream_par_iter(0..n)
                            .map(|_| replica_coord().unwrap())
                            .replication(parse_repl(&arg))
                            .for_each(|p| probe(0, p));
                    }
                }
                ctx.execute_blocking();
            }));
            let _ = tx.send(r.is_ok());
        });
    }
    for _ in 0..nconf {
        match rx.recv_timeout(Duration::from_secs(30 * nvh::load_factor() as u64)) {
            Ok(true) => {}
            Ok(false) => return vec!["engine panic".into()],
            Err(_) => return vec!["engine timeout".into()],
        }
    }
    let probe = PROBE.lock().unwrap().clone();
    let list = |s: &BTreeSet<Coord>| s.iter().map(coord).collect::<Vec<_>>().join(",");
    let mut out = vec![];
    match kind.as_str() {
        "gb" | "join" => {
            // per key: the consumer replicas that saw it, how many records, how many producers
            let mut per: BTreeMap<u64, (BTreeSet<Coord>, usize, BTreeSet<Coord>)> = BTreeMap::new();
            for (k, p, cns) in probe {
                let e = per.entry(k).or_default();
                e.0.insert(cns);
                e.1 += 1;
                e.2.insert(p);
            }
            for (k, (cs, cnt, ps)) in per {
                if k >= (1 << 32) {
                    out.push(format!("engine join-right {} {} n={cnt} p={}", k - (1 << 32), list(&cs), ps.len()));
                } else {
                    out.push(format!("engine {kind} {k} {} n={cnt} p={}", list(&cs), ps.len()));
                }
            }
        }
        _ => {
            let mut per: BTreeMap<Coord, BTreeSet<Coord>> = BTreeMap::new();
            for (_, p, cns) in probe {
                per.entry(p).or_default().insert(cns);
            }
            for (p, cs) in per {
                out.push(format!("engine fwd {} {}", coord(&p), list(&cs)));
            }
        }
    }
    out
}

fn exec(c: &Case) -> Vec<String> {
    let mut out = vec![];
    for op in &c.ops {
        match op[0].as_str() {
            "engine" => out.extend(run_engine(c, op)),
            "isect" => {
                let r = parse_repl(&op[1]).intersect(parse_repl(&op[2]));
                out.push(format!("isect {}", fmt_repl(r)));
            }
            "lost" => {
                let (cores, n, k): (u64, u64, u64) =
                    (op[1].parse().unwrap(), op[2].parse().unwrap(), op[3].parse().unwrap());
                let ctx = StreamContext::new(RuntimeConfig::local(cores).unwrap());
                let res = ctx
                    .stream_par_iter(0..n)
                    .replication(Replication::new_limited(k))
                    .collect_vec();
                ctx.execute_blocking();
                out.push(format!("lost {}", n as usize - res.get().unwrap().len()));
            }
            _ => {}
        }
    }
    let program: Vec<Vec<String>> = c.ops.iter().filter(|o| o[0] != "host").cloned().collect();
    if c.header.get(1).map(|s| s.as_str()) == Some("local") {
        let n: u64 = c.header[2].parse().unwrap();
        let ctx = StreamContext::new(RuntimeConfig::local(n).unwrap());
        build(&ctx, &program);
        out.push("H 0".into());
        fmt_dump(&mut out, &ctx.verif_execution_graph());
        return out;
    }
    let hosts: Vec<HostConfig> = c
        .ops
        .iter()
        .filter(|o| o[0] == "host")
        .map(|o| HostConfig {
            address: format!("a{}", o[1]),
            base_port: o[2].parse().unwrap(),
            num_cores: o[3].parse().unwrap(),
            ssh: Default::default(),
            perf_path: None,
        })
        .collect();
    if hosts.is_empty() {
        out.push("nohosts".into());
        return out;
    }
    // The dump of host 0 is printed in full; the dump of another host is printed as `H <h> =0`
    // when its text is identical to the one of host 0 and in full otherwise.
    let mut first: Vec<String> = vec![];
    for h in 0..hosts.len() {
        let cfg = ConfigBuilder::new_remote()
            .add_hosts(&hosts)
            .host_id(h as u64)
            .build()
            .unwrap();
        let ctx = StreamContext::new(cfg);
        build(&ctx, &program);
        let mut text = vec![];
        fmt_dump(&mut text, &ctx.verif_execution_graph());
        if h == 0 {
            first = text.clone();
            out.push("H 0".into());
            out.extend(text);
        } else if text == first {
            out.push(format!("H {h} =0"));
        } else {
            out.push(format!("H {h}"));
            out.extend(text);
        }
    }
    out
}

// ---------------------------------------------------------------------------------------------
// generator

#[derive(Clone, Copy, PartialEq, Debug)]
enum R {
    U,
    L(u64),
    H,
    O,
}

impl R {
    fn s(self) -> String {
        match self {
            R::U => "U".into(),
            R::L(n) => format!("L{n}"),
            R::H => "H".into(),
            R::O => "O".into(),
        }
    }
}

fn any_repl(rng: &mut Rng, total: u64) -> R {
    match rng.below(6) {
        0 => R::U,
        1 => R::H,
        2 => R::O,
        3 => R::L(rng.range(1, total as i64 + 2) as u64),
        _ => R::L(rng.range(1, 4) as u64),
    }
}

fn gen(rng: &mut Rng, i: usize) -> Case {
    // the former F4 witness on the real engine (a real job is executed: rare)
    if i % 400 == 7 {
        let mut c = Case::new(&["graph", "local", "4"]);
        c.op(&["lost", "4", "100", "3"]);
        c.op(&["src", "0", "U"]);
        c.op(&["repl", "0", "1", "L3"]);
        c.op(&["sink", "1", "vec"]);
        return c;
    }
    // running-engine probes (real jobs: rare, small)
    if i % 40 == 13 {
        let mut c;
        let total: u64;
        if rng.chance(1, 2) {
            let n = rng.range(2, 4) as u64;
            total = n;
            c = Case::new(&["graph", "local", &n.to_string()]);
        } else {
            c = Case::new(&["graph", "remote"]);
            let (a, b) = (rng.range(1, 3) as u64, rng.range(1, 3) as u64);
            total = a + b;
            c.ops(vec!["host".into(), "0".into(), "9500".into(), a.to_string()]);
            c.ops(vec!["host".into(), "1".into(), "9500".into(), b.to_string()]);
        }
        let keys: Vec<String> = (0..rng.range(1, 6) as u64)
            .map(|j| {
                let k = j * 7 + rng.below(5);
                format!("{k}:{}", renoir::group_by_hash(&k) as i64)
            })
            .collect();
        match rng.below(3) {
            0 => c.ops(vec!["engine".into(), "gb".into(), keys.join(",")]),
            1 => c.ops(vec!["engine".into(), "join".into(), keys.join(",")]),
            _ => {
                let r = if rng.chance(1, 3) { "H".to_string() } else { format!("L{}", rng.range(1, total as i64)) };
                c.ops(vec!["engine".into(), "fwd".into(), r]);
            }
        }
        return c;
    }
    // configuration
    let mut cores: Vec<u64> = vec![];
    let local = rng.chance(1, 4);
    let mut c;
    if local {
        let n = rng.range(1, 9) as u64;
        cores.push(n);
        c = Case::new(&["graph", "local", &n.to_string()]);
    } else {
        c = Case::new(&["graph", "remote"]);
        let nh = *rng.pick(&[1, 2, 2, 3, 3, 4, 5]);
        let shared_addr = rng.chance(1, 3);
        let one_core = rng.chance(1, 4);
        for h in 0..nh {
            let n = if one_core && rng.chance(2, 3) { 1 } else if rng.chance(2, 3) { rng.range(1, 4) as u64 } else { rng.range(1, 9) as u64 };
            cores.push(n);
            let addr = if shared_addr { rng.below(2) } else { h as u64 };
            // hosts sharing an address get disjoint port ranges; others may coincide
            let port = if shared_addr { 10000 + 500 * h as u64 } else { *rng.pick(&[9500u64, 9500, 20000, 65000]) };
            c.ops(vec!["host".into(), addr.to_string(), port.to_string(), n.to_string()]);
        }
    }
    let total: u64 = cores.iter().sum();
    // `unsafe` programs may contain forward links between different layouts (fallback consumer / F8)
    let unsafe_mode = rng.chance(1, 6);
    let mut live: Vec<(usize, R)> = vec![];
    let mut next = 0usize;
    let nsrc = rng.range(1, 3);
    for _ in 0..nsrc {
        let r = match rng.below(if unsafe_mode { 6 } else { 3 }) {
            0 => R::O,
            1 | 2 => R::U,
            _ => any_repl(rng, total),
        };
        c.ops(vec!["src".into(), next.to_string(), r.s()]);
        live.push((next, r));
        next += 1;
    }
    let nops = rng.range(2, 12);
    for _ in 0..nops {
        if live.is_empty() {
            break;
        }
        let k = rng.below(live.len() as u64) as usize;
        let (s, r) = live[k];
        match rng.below(15) {
            0 => c.ops(vec!["map".into(), s.to_string()]),
            1..=3 => {
                let name = *rng.pick(&["shuffle", "groupby", "broadcast"]);
                c.ops(vec![name.into(), s.to_string(), next.to_string()]);
                live[k] = (next, R::U);
                next += 1;
            }
            4 | 5 => {
                let nr = if unsafe_mode {
                    any_repl(rng, total)
                } else {
                    // from an Unlimited block every requirement gives a layout contained in the
                    // producer's (no consumer replica without producer); Limited(k < total) and
                    // Host exercise the fallback consumer of orphan producers
                    match rng.below(6) {
                        0 => R::O,
                        1 => r,
                        2 | 3 if r == R::U => R::L(rng.range(1, total as i64 + 1) as u64),
                        4 if r == R::U || cores.len() == 1 => R::H,
                        5 if r == R::H => R::L(rng.range(1, 3) as u64),
                        _ => R::O,
                    }
                };
                c.ops(vec!["repl".into(), s.to_string(), next.to_string(), nr.s()]);
                // Unlimited.intersect(nr) = nr
                live[k] = (next, nr);
                next += 1;
            }
            6 => {
                let n = rng.range(1, 3) as usize;
                let mut w = vec!["split".to_string(), s.to_string()];
                live.remove(k);
                for _ in 0..n {
                    w.push(next.to_string());
                    live.push((next, r));
                    next += 1;
                }
                c.ops(w);
            }
            7..=10 if live.len() >= 2 => {
                let name = *rng.pick(&["merge", "zip", "join", "bjoin"]);
                // partner: for merge/zip prefer one with the same replication
                let cands: Vec<usize> = (0..live.len())
                    .filter(|&j| j != k && (live[j].1 == r || name == "join" || name == "bjoin" || rng.chance(1, 10)))
                    .collect();
                if cands.is_empty() {
                    continue;
                }
                let j = *rng.pick(&cands);
                let (t, _) = live[j];
                c.ops(vec![name.into(), s.to_string(), t.to_string(), next.to_string()]);
                let nr = match name {
                    "merge" | "bjoin" => r,
                    "zip" => R::O,
                    _ => R::U,
                };
                let (hi, lo) = if k > j { (k, j) } else { (j, k) };
                live.remove(hi);
                live.remove(lo);
                live.push((next, nr));
                next += 1;
            }
            11 => {
                let kind = if rng.chance(1, 2) { "vec" } else { "each" };
                c.ops(vec!["sink".into(), s.to_string(), kind.into()]);
                live.remove(k);
            }
            12 | 13 if r == R::U || unsafe_mode && rng.chance(1, 4) => {
                let body = *rng.pick(&["", "", "m", "x", "g", "xx", "mx", "r", "xr", "rx", "rr"]);
                live.remove(k);
                if rng.chance(2, 3) {
                    let mut w = vec!["iterate".to_string(), s.to_string(), next.to_string(), (next + 1).to_string()];
                    if !body.is_empty() {
                        w.push(body.into());
                    }
                    c.ops(w);
                    live.push((next, R::U));
                    live.push((next + 1, R::U));
                    next += 2;
                } else {
                    let mut w = vec!["replay".to_string(), s.to_string(), next.to_string()];
                    let body = body.replace('r', "");
                    if !body.is_empty() {
                        w.push(body);
                    }
                    c.ops(w);
                    live.push((next, R::U));
                    next += 1;
                }
            }
            _ => {
                let (a, b) = (any_repl(rng, total), any_repl(rng, total));
                c.ops(vec!["isect".into(), a.s(), b.s()]);
            }
        }
    }
    c
}

fn main() {
    run_main("graph", gen, exec);
}
