//! C19: the execution graph every host derives from the same program and configuration.
//!
//! The op lines are a *program* (a sequence of public `Stream` API calls naming streams by
//! numbers) plus the host list. For every `host_id` the same program is built on a fresh
//! `StreamContext` and `verif_execution_graph()` dumps what `build_execution_graph` +
//! `NetworkTopology::build` computed on that host (nothing is executed).
//!
//! header: `graph local <parallelism>` | `graph remote`
//! ops:    `host <addr> <base_port> <cores>`            (remote only; host ids in order)
//!         `src <out> <R>`  `map <s>`  `shuffle|groupby|broadcast <s> <out>`  `repl <s> <out> <R>`
//!         `split <s> <out>…`  `merge|zip|join|bjoin <a> <b> <out>`  `sink <s> each|vec`
//!         `iterate <s> <outState> <outItems>`  `isect <R> <R>`  `run <src R> <repl R>` (see below)
//!         with R = `U` | `L<n>` | `H` | `O`.
//! An op naming a missing stream (or a taken output name) is skipped; streams left open at the
//! end get a `for_each` sink.
//! `lost <cores> <n> <k>` runs the tiny real job `stream_par_iter(0..n).replication(Limited(k))
//! .collect_vec()` on `cores` local cores and prints how many elements were lost (regression of the
//! former finding F4: must be 0).
use std::collections::BTreeMap;
use std::fmt::Display;

use nvh::*;
use renoir::config::{ConfigBuilder, HostConfig};
use renoir::operator::{Operator, StreamElement};
use renoir::structure::BlockStructure;
use renoir::verif::{GraphDump, ScriptOp};
use renoir::{ExecutionMetadata, Replication, RuntimeConfig, Stream, StreamContext};

// ---------------------------------------------------------------------------------------------
// type erasure, so that streams of any operator chain can be kept in one map

trait DynOp: Send {
    fn dyn_setup(&mut self, m: &mut ExecutionMetadata);
    fn dyn_next(&mut self) -> StreamElement<Val>;
    fn dyn_structure(&self) -> BlockStructure;
    fn dyn_clone(&self) -> Box<dyn DynOp>;
    fn dyn_show(&self) -> String;
}

impl<T: Operator<Out = Val> + 'static> DynOp for T {
    fn dyn_setup(&mut self, m: &mut ExecutionMetadata) {
        self.setup(m)
    }
    fn dyn_next(&mut self) -> StreamElement<Val> {
        self.next()
    }
    fn dyn_structure(&self) -> BlockStructure {
        self.structure()
    }
    fn dyn_clone(&self) -> Box<dyn DynOp> {
        Box::new(self.clone())
    }
    fn dyn_show(&self) -> String {
        self.to_string()
    }
}

struct BoxOp(Box<dyn DynOp>);

impl Clone for BoxOp {
    fn clone(&self) -> Self {
        BoxOp(self.0.dyn_clone())
    }
}
impl Display for BoxOp {
    fn fmt(&self, f: &mut std::fmt::Formatter<'_>) -> std::fmt::Result {
        write!(f, "{}", self.0.dyn_show())
    }
}
impl Operator for BoxOp {
    type Out = Val;
    fn setup(&mut self, metadata: &mut ExecutionMetadata) {
        self.0.dyn_setup(metadata)
    }
    fn next(&mut self) -> StreamElement<Val> {
        self.0.dyn_next()
    }
    fn structure(&self) -> BlockStructure {
        self.0.dyn_structure()
    }
}

type S = Stream<BoxOp>;

fn boxed<Op: Operator<Out = Val> + 'static>(s: Stream<Op>) -> S {
    s.add_operator(|prev| BoxOp(Box::new(prev)))
}

// ---------------------------------------------------------------------------------------------

fn parse_repl(s: &str) -> Replication {
    match s {
        "U" => Replication::Unlimited,
        "H" => Replication::Host,
        "O" => Replication::One,
        _ => Replication::Limited(s[1..].parse().expect("bad replication")),
    }
}

fn fmt_repl(r: Replication) -> String {
    match r {
        Replication::Unlimited => "U".into(),
        Replication::Host => "H".into(),
        Replication::One => "O".into(),
        Replication::Limited(n) => format!("L{n}"),
    }
}

fn coord(c: &renoir::verif::Coord) -> String {
    format!("{}.{}.{}", c.block_id, c.host_id, c.replica_id)
}

fn fmt_dump(out: &mut Vec<String>, d: &GraphDump) {
    for b in &d.blocks {
        let reps: Vec<String> = b.replicas.iter().map(|(c, g)| format!("{}:{g}", coord(c))).collect();
        let ph: Vec<String> = b
            .per_host
            .iter()
            .map(|(h, v)| format!("{h}=[{}]", v.iter().map(coord).collect::<Vec<_>>().join(",")))
            .collect();
        out.push(format!(
            "B {} {} {} {}",
            b.block_id,
            if b.is_only_one_strategy { 1 } else { 0 },
            if reps.is_empty() { "-".into() } else { reps.join(",") },
            if ph.is_empty() { "-".into() } else { ph.join(";") },
        ));
    }
    // links grouped per (producer replica, fragile): `L <from> <fragile> <to>,<to>,…`
    let mut i = 0;
    while i < d.links.len() {
        let (f, _, fr) = d.links[i];
        let mut tos = vec![];
        while i < d.links.len() && d.links[i].0 == f && d.links[i].2 == fr {
            tos.push(coord(&d.links[i].1));
            i += 1;
        }
        out.push(format!("L {} {} {}", coord(&f), if fr { 1 } else { 0 }, tos.join(",")));
    }
    for ((b, h, p), a, port) in &d.addresses {
        out.push(format!("A {b} {h} {p} {a} {port}"));
    }
}

/// Build the program on `ctx`.
fn build(ctx: &StreamContext, ops: &[Vec<String>]) {
    let mut streams: BTreeMap<usize, S> = BTreeMap::new();
    let id = |w: &String| w.parse::<usize>().expect("bad stream id");
    for op in ops {
        match op[0].as_str() {
            "src" => {
                let out = id(&op[1]);
                if streams.contains_key(&out) {
                    continue;
                }
                let r = parse_repl(&op[2]);
                let s = ctx.stream(ScriptOp::<Val>::new(vec![]).with_replication(r));
                streams.insert(out, boxed(s));
            }
            "map" => {
                let s = id(&op[1]);
                if let Some(st) = streams.remove(&s) {
                    streams.insert(s, boxed(st.map(|v| v)));
                }
            }
            "shuffle" | "groupby" | "broadcast" | "repl" => {
                let (s, out) = (id(&op[1]), id(&op[2]));
                if !streams.contains_key(&s) || streams.contains_key(&out) {
                    continue;
                }
                let st = streams.remove(&s).unwrap();
                let n = match op[0].as_str() {
                    "shuffle" => boxed(st.shuffle()),
                    "groupby" => boxed(st.group_by(|v: &Val| v.clone()).drop_key()),
                    "broadcast" => boxed(st.broadcast()),
                    _ => boxed(st.replication(parse_repl(&op[3]))),
                };
                streams.insert(out, n);
            }
            "split" => {
                let s = id(&op[1]);
                let outs: Vec<usize> = op[2..].iter().map(id).collect();
                let mut uniq = outs.clone();
                uniq.sort();
                uniq.dedup();
                if outs.is_empty()
                    || uniq.len() != outs.len()
                    || !streams.contains_key(&s)
                    || outs.iter().any(|o| streams.contains_key(o))
                {
                    continue;
                }
                let st = streams.remove(&s).unwrap();
                // `split` returns [clone_1, …, clone_{n-1}, new_stream]
                for (o, ns) in outs.iter().zip(st.split(outs.len())) {
                    streams.insert(*o, boxed(ns));
                }
            }
            "merge" | "zip" | "join" | "bjoin" => {
                let (a, b, out) = (id(&op[1]), id(&op[2]), id(&op[3]));
                if a == b
                    || !streams.contains_key(&a)
                    || !streams.contains_key(&b)
                    || streams.contains_key(&out)
                {
                    continue;
                }
                let sa = streams.remove(&a).unwrap();
                let sb = streams.remove(&b).unwrap();
                let n = match op[0].as_str() {
                    "merge" => boxed(sa.merge(sb)),
                    "zip" => boxed(sa.zip(sb).map(|(x, _)| x)),
                    "join" => boxed(
                        sa.join(sb, |v: &Val| v.clone(), |v: &Val| v.clone())
                            .drop_key()
                            .map(|(x, _)| x),
                    ),
                    _ => boxed(
                        sa.join_with(sb, |v: &Val| v.clone(), |v: &Val| v.clone())
                            .ship_broadcast_right()
                            .local_hash()
                            .inner()
                            .map(|(_, (x, _))| x),
                    ),
                };
                streams.insert(out, n);
            }
            "sink" => {
                let s = id(&op[1]);
                if let Some(st) = streams.remove(&s) {
                    if op.get(2).map(|s| s.as_str()) == Some("vec") {
                        let _ = st.collect_vec();
                    } else {
                        st.for_each(|_| ());
                    }
                }
            }
            "iterate" => {
                let (s, o1, o2) = (id(&op[1]), id(&op[2]), id(&op[3]));
                if !streams.contains_key(&s)
                    || streams.contains_key(&o1)
                    || streams.contains_key(&o2)
                    || o1 == o2
                {
                    continue;
                }
                let st = streams.remove(&s).unwrap();
                let (state, items) = st.iterate(
                    1,
                    0i64,
                    |s, _| s,
                    |_d: &mut i64, _v: Val| {},
                    |_s: &mut i64, _d: i64| {},
                    |_s: &mut i64| false,
                );
                streams.insert(o1, boxed(state.map(Val::Int)));
                streams.insert(o2, boxed(items));
            }
            _ => {}
        }
    }
    for (_, st) in streams {
        st.for_each(|_| ());
    }
}

fn exec(c: &Case) -> Vec<String> {
    let mut out = vec![];
    for op in &c.ops {
        match op[0].as_str() {
            "isect" => {
                let r = parse_repl(&op[1]).intersect(parse_repl(&op[2]));
                out.push(format!("isect {}", fmt_repl(r)));
            }
            "lost" => {
                let (cores, n, k): (u64, u64, u64) =
                    (op[1].parse().unwrap(), op[2].parse().unwrap(), op[3].parse().unwrap());
                let ctx = StreamContext::new(RuntimeConfig::local(cores).unwrap());
                let res = ctx
                    .stream_par_iter(0..n)
                    .replication(Replication::new_limited(k))
                    .collect_vec();
                ctx.execute_blocking();
                out.push(format!("lost {}", n as usize - res.get().unwrap().len()));
            }
            _ => {}
        }
    }
    let program: Vec<Vec<String>> = c.ops.iter().filter(|o| o[0] != "host").cloned().collect();
    if c.header.get(1).map(|s| s.as_str()) == Some("local") {
        let n: u64 = c.header[2].parse().unwrap();
        let ctx = StreamContext::new(RuntimeConfig::local(n).unwrap());
        build(&ctx, &program);
        out.push("H 0".into());
        fmt_dump(&mut out, &ctx.verif_execution_graph());
        return out;
    }
    let hosts: Vec<HostConfig> = c
        .ops
        .iter()
        .filter(|o| o[0] == "host")
        .map(|o| HostConfig {
            address: format!("a{}", o[1]),
            base_port: o[2].parse().unwrap(),
            num_cores: o[3].parse().unwrap(),
            ssh: Default::default(),
            perf_path: None,
        })
        .collect();
    if hosts.is_empty() {
        out.push("nohosts".into());
        return out;
    }
    // The dump of host 0 is printed in full; the dump of another host is printed as `H <h> =0`
    // when its text is identical to the one of host 0 and in full otherwise.
    let mut first: Vec<String> = vec![];
    for h in 0..hosts.len() {
        let cfg = ConfigBuilder::new_remote()
            .add_hosts(&hosts)
            .host_id(h as u64)
            .build()
            .unwrap();
        let ctx = StreamContext::new(cfg);
        build(&ctx, &program);
        let mut text = vec![];
        fmt_dump(&mut text, &ctx.verif_execution_graph());
        if h == 0 {
            first = text.clone();
            out.push("H 0".into());
            out.extend(text);
        } else if text == first {
            out.push(format!("H {h} =0"));
        } else {
            out.push(format!("H {h}"));
            out.extend(text);
        }
    }
    out
}

// ---------------------------------------------------------------------------------------------
// generator

#[derive(Clone, Copy, PartialEq, Debug)]
enum R {
    U,
    L(u64),
    H,
    O,
}

impl R {
    fn s(self) -> String {
        match self {
            R::U => "U".into(),
            R::L(n) => format!("L{n}"),
            R::H => "H".into(),
            R::O => "O".into(),
        }
    }
}

fn any_repl(rng: &mut Rng, total: u64) -> R {
    match rng.below(6) {
        0 => R::U,
        1 => R::H,
        2 => R::O,
        3 => R::L(rng.range(1, total as i64 + 2) as u64),
        _ => R::L(rng.range(1, 4) as u64),
    }
}

fn gen(rng: &mut Rng, i: usize) -> Case {
    // the former F4 witness on the real engine (a real job is executed: rare)
    if i % 400 == 7 {
        let mut c = Case::new(&["graph", "local", "4"]);
        c.op(&["lost", "4", "100", "3"]);
        c.op(&["src", "0", "U"]);
        c.op(&["repl", "0", "1", "L3"]);
        c.op(&["sink", "1", "vec"]);
        return c;
    }
    // configuration
    let mut cores: Vec<u64> = vec![];
    let local = rng.chance(1, 4);
    let mut c;
    if local {
        let n = rng.range(1, 9) as u64;
        cores.push(n);
        c = Case::new(&["graph", "local", &n.to_string()]);
    } else {
        c = Case::new(&["graph", "remote"]);
        let nh = *rng.pick(&[1, 2, 2, 3, 3, 4, 5]);
        let shared_addr = rng.chance(1, 3);
        let one_core = rng.chance(1, 4);
        for h in 0..nh {
            let n = if one_core && rng.chance(2, 3) { 1 } else if rng.chance(2, 3) { rng.range(1, 4) as u64 } else { rng.range(1, 9) as u64 };
            cores.push(n);
            let addr = if shared_addr { rng.below(2) } else { h as u64 };
            // hosts sharing an address get disjoint port ranges; others may coincide
            let port = if shared_addr { 10000 + 500 * h as u64 } else { *rng.pick(&[9500u64, 9500, 20000, 65000]) };
            c.ops(vec!["host".into(), addr.to_string(), port.to_string(), n.to_string()]);
        }
    }
    let total: u64 = cores.iter().sum();
    // `unsafe` programs may contain forward links between different layouts (fallback consumer / F8)
    let unsafe_mode = rng.chance(1, 6);
    let mut live: Vec<(usize, R)> = vec![];
    let mut next = 0usize;
    let nsrc = rng.range(1, 3);
    for _ in 0..nsrc {
        let r = match rng.below(if unsafe_mode { 6 } else { 3 }) {
            0 => R::O,
            1 | 2 => R::U,
            _ => any_repl(rng, total),
        };
        c.ops(vec!["src".into(), next.to_string(), r.s()]);
        live.push((next, r));
        next += 1;
    }
    let nops = rng.range(2, 12);
    for _ in 0..nops {
        if live.is_empty() {
            break;
        }
        let k = rng.below(live.len() as u64) as usize;
        let (s, r) = live[k];
        match rng.below(14) {
            0 => c.ops(vec!["map".into(), s.to_string()]),
            1..=3 => {
                let name = *rng.pick(&["shuffle", "groupby", "broadcast"]);
                c.ops(vec![name.into(), s.to_string(), next.to_string()]);
                live[k] = (next, R::U);
                next += 1;
            }
            4 | 5 => {
                let nr = if unsafe_mode {
                    any_repl(rng, total)
                } else {
                    match rng.below(4) {
                        0 => R::O,
                        1 => r,
                        2 if r == R::U => R::L(total + rng.below(3)),
                        3 if cores.len() == 1 => R::H,
                        _ => R::O,
                    }
                };
                c.ops(vec!["repl".into(), s.to_string(), next.to_string(), nr.s()]);
                // Unlimited.intersect(nr) = nr
                live[k] = (next, nr);
                next += 1;
            }
            6 => {
                let n = rng.range(1, 3) as usize;
                let mut w = vec!["split".to_string(), s.to_string()];
                live.remove(k);
                for _ in 0..n {
                    w.push(next.to_string());
                    live.push((next, r));
                    next += 1;
                }
                c.ops(w);
            }
            7..=10 if live.len() >= 2 => {
                let name = *rng.pick(&["merge", "zip", "join", "bjoin"]);
                // partner: for merge/zip prefer one with the same replication
                let cands: Vec<usize> = (0..live.len())
                    .filter(|&j| j != k && (live[j].1 == r || name == "join" || name == "bjoin" || rng.chance(1, 10)))
                    .collect();
                if cands.is_empty() {
                    continue;
                }
                let j = *rng.pick(&cands);
                let (t, _) = live[j];
                c.ops(vec![name.into(), s.to_string(), t.to_string(), next.to_string()]);
                let nr = match name {
                    "merge" | "bjoin" => r,
                    "zip" => R::O,
                    _ => R::U,
                };
                let (hi, lo) = if k > j { (k, j) } else { (j, k) };
                live.remove(hi);
                live.remove(lo);
                live.push((next, nr));
                next += 1;
            }
            11 => {
                let kind = if rng.chance(1, 2) { "vec" } else { "each" };
                c.ops(vec!["sink".into(), s.to_string(), kind.into()]);
                live.remove(k);
            }
            12 if r == R::U || unsafe_mode && rng.chance(1, 4) => {
                c.ops(vec!["iterate".into(), s.to_string(), next.to_string(), (next + 1).to_string()]);
                live.remove(k);
                live.push((next, R::U));
                live.push((next + 1, R::U));
                next += 2;
            }
            _ => {
                let (a, b) = (any_repl(rng, total), any_repl(rng, total));
                c.ops(vec!["isect".into(), a.s(), b.s()]);
            }
        }
    }
    c
}

fn main() {
    run_main("graph", gen, exec);
}
