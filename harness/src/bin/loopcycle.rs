//! C04 (channel cycle of an `iterate` loop): real `iterate` jobs (public API only) on
//! `RuntimeConfig::local(cores)`. Every replica of the loop gets its OWN input (a `ParallelIteratorSource`
//! directly in front of `iterate`, no shuffle), so the content that one `Iterate` replica replays through
//! its feedback cycle
//!
//!   Iterate (+ fused body operators + End) --16--> [body blocks after a shuffle --16-->] feedback block
//!   (Start + End) --16--> Iterate.feedback_receiver
//!
//! is exactly what the case says: below, at, and far above the capacity of the cycle (2 channels of
//! `CHANNEL_CAPACITY` = 16 batches + the batches held by the two `End`s and the `Start`: ~34 batches).
//! Every run is done on a helper thread under a watchdog; a run that does not return is `blocked`.
//!
//! header: `loopcycle <cores> <bm> <rounds> <body> <E>`
//!   cores  1..4                    `RuntimeConfig::local(cores)`
//!   bm     single | fixed1 | fixed3 | adaptive (= `BatchMode::adaptive(16, 1 ms)`)
//!   rounds 1..4                    `num_iterations` (the loop condition is always true)
//!   body   stages separated by `.`: m = `map(x + 1)`, f = `filter(x even)` (drops half),
//!          d = `flat_map` producing E elements `x + 1000 j` (E = 2: duplicate), s = `shuffle()`
//!          (starts a new block: the stages behind it run on their own threads)
//!   E      expansion factor of `d`
//! ops:    `r <replica> <start> <count>`  replica `replica mod cores` gets `start, start+1, …` (count elements)
//! outputs: `state <sum of all fed-back elements over all rounds>`
//!          `items <len> <sum> [<sorted list> if len ≤ 40]` (the items stream: what the last round fed back)
//!          or `blocked` / `panic:<class>`
use std::sync::atomic::{AtomicU64, Ordering};
use std::time::Duration;

use nvh::*;
use renoir::operator::Operator;
use renoir::{BatchMode, RuntimeConfig, Stream, StreamContext};

#[allow(dead_code)]
static LEAKED: AtomicU64 = AtomicU64::new(0);

#[derive(Clone, Debug)]
struct Cfg {
    cores: u64,
    bm: String,
    rounds: usize,
    body: String,
    e: i64,
    /// per replica: the input elements
    input: Vec<Vec<i64>>,
}

fn batch_mode(bm: &str) -> BatchMode {
    match bm {
        "single" => BatchMode::single(),
        "fixed1" => BatchMode::fixed(1),
        "fixed3" => BatchMode::fixed(3),
        "adaptive" => BatchMode::adaptive(16, Duration::from_millis(1)),
        _ => panic!("bad batch mode {bm}"),
    }
}

/// apply a literal list of stages to a stream
macro_rules! stages {
    ($s:expr, $e:expr;) => { $s };
    ($s:expr, $e:expr; m $($rest:tt)*) => { stages!($s.map(|x: i64| x + 1), $e; $($rest)*) };
    ($s:expr, $e:expr; f $($rest:tt)*) => { stages!($s.filter(|x: &i64| x.rem_euclid(2) == 0), $e; $($rest)*) };
    ($s:expr, $e:expr; d $($rest:tt)*) => {{
        let e: i64 = $e;
        stages!($s.flat_map(move |x: i64| (0..e).map(move |j| x + 1000 * j)), $e; $($rest)*)
    }};
    ($s:expr, $e:expr; s $($rest:tt)*) => { stages!($s.shuffle(), $e; $($rest)*) };
}

type Outs = (renoir::prelude::StreamOutput<Vec<i64>>, renoir::prelude::StreamOutput<Vec<i64>>);

macro_rules! job {
    ($env:expr, $cfg:expr; $($st:tt)*) => {{
        let cfg: Cfg = $cfg.clone();
        let input = cfg.input.clone();
        let e = cfg.e;
        let src = $env
            .stream_par_iter(move |id: u64, _n: u64| input.get(id as usize).cloned().unwrap_or_default().into_iter())
            .batch_mode(batch_mode(&cfg.bm));
        let (st, items) = src.iterate(
            cfg.rounds,
            0i64,
            move |s, _st| body_of!(s, e; $($st)*),
            |d: &mut i64, x: i64| *d += x,
            |s: &mut i64, d: i64| *s += d,
            |_s: &mut i64| true,
        );
        let r: Outs = (st.collect_vec(), items.collect_vec());
        r
    }};
}

macro_rules! body_of {
    ($s:expr, $e:expr; $($st:tt)*) => {{
        fn typed<Op: Operator<Out = i64> + 'static>(s: Stream<Op>, e: i64) -> Stream<impl Operator<Out = i64>> {
            let _ = e;
            stages!(s, e; $($st)*)
        }
        typed($s, $e)
    }};
}

pub const BODIES: &[&str] = &["m", "f", "d", "m.f", "d.f", "f.d", "m.d.f", "s.m", "m.s.d", "d.s.f", "s.d.s.f", "f.s.m"];

fn build(env: &StreamContext, cfg: &Cfg) -> Outs {
    match cfg.body.as_str() {
        "m" => job!(env, cfg; m),
        "f" => job!(env, cfg; f),
        "d" => job!(env, cfg; d),
        "m.f" => job!(env, cfg; m f),
        "d.f" => job!(env, cfg; d f),
        "f.d" => job!(env, cfg; f d),
        "m.d.f" => job!(env, cfg; m d f),
        "s.m" => job!(env, cfg; s m),
        "s.d" => job!(env, cfg; s d),
        "m.s.d" => job!(env, cfg; m s d),
        "d.s.f" => job!(env, cfg; d s f),
        "s.d.s.f" => job!(env, cfg; s d s f),
        "f.s.m" => job!(env, cfg; f s m),
        b => panic!("bad body {b}"),
    }
}

fn parse_cfg(c: &Case) -> Cfg {
    let h = &c.header;
    let cores: u64 = h[1].parse().unwrap();
    let mut input = vec![Vec::new(); cores as usize];
    for w in &c.ops {
        if w.len() == 4 && w[0] == "r" {
            let r = w[1].parse::<u64>().unwrap() % cores;
            let start: i64 = w[2].parse().unwrap();
            let count: i64 = w[3].parse().unwrap();
            input[r as usize].extend(start..start + count);
        }
    }
    Cfg {
        cores,
        bm: h[2].clone(),
        rounds: h[3].parse().unwrap(),
        body: h[4].clone(),
        e: h[5].parse().unwrap(),
        input,
    }
}

/// watchdog: 4 s + 1 s per 3000 elements the job has to move (a terminating run of these sizes takes
/// milliseconds); `LOOPCYCLE_WATCHDOG_MS` overrides the base
fn watchdog(cfg: &Cfg) -> Duration {
    let base = std::env::var("LOOPCYCLE_WATCHDOG_MS").ok().and_then(|s| s.parse().ok()).unwrap_or(4000u64);
    let n: f64 = cfg.input.iter().map(|v| v.len() as f64).sum();
    let nd = cfg.body.split('.').filter(|s| *s == "d").count() as i32;
    let work = (n * (cfg.e as f64).powi(nd * cfg.rounds as i32)).min(60000.0);
    Duration::from_millis((base + (work / 3.0) as u64) * load_factor() as u64)
}

fn run_job(cfg: &Cfg) -> Result<(Vec<i64>, Vec<i64>), String> {
    let (tx, rx) = std::sync::mpsc::channel();
    let wd = watchdog(cfg);
    let cfg = cfg.clone();
    std::thread::spawn(move || {
        let r = std::panic::catch_unwind(std::panic::AssertUnwindSafe(|| {
            let env = StreamContext::new(RuntimeConfig::local(cfg.cores).unwrap());
            let (st, items) = build(&env, &cfg);
            env.execute_blocking();
            (st.get().unwrap_or_default(), items.get().unwrap_or_default())
        }));
        let _ = tx.send(r.map_err(|e| {
            if let Some(s) = e.downcast_ref::<String>() {
                s.clone()
            } else if let Some(s) = e.downcast_ref::<&str>() {
                s.to_string()
            } else {
                "unknown".into()
            }
        }));
    });
    match rx.recv_timeout(wd) {
        Ok(Ok(x)) => Ok(x),
        Ok(Err(m)) => Err(format!("panic:{}", classify_panic(&m))),
        Err(_) => {
            // the worker threads of a deadlocked job stay parked for the rest of the process
            LEAKED.fetch_add(1, Ordering::SeqCst);
            Err("blocked".into())
        }
    }
}

fn exec(c: &Case) -> Vec<String> {
    let cfg = parse_cfg(c);
    match run_job(&cfg) {
        Err(e) => vec![e],
        Ok((state, mut items)) => {
            items.sort();
            let sum: i128 = items.iter().map(|x| *x as i128).sum();
            let mut line = format!("items {} {}", items.len(), sum);
            if items.len() <= 40 {
                line.push_str(&format!(" {}", Val::ints(items)));
            }
            vec![format!("state {}", Val::ints(state)), line]
        }
    }
}

/// elements per batch of a batch mode
fn batch_size(bm: &str) -> i64 {
    match bm {
        "single" | "fixed1" => 1,
        "fixed3" => 3,
        _ => 16,
    }
}

/// bodies with a real expansion (`d` with E > 2): without / with a shuffle in front of the `flat_map`
const EXPANDING: &[&str] = &["d", "m.d.f", "d.f", "f.d", "d", "s.d", "m.s.d"];

/// finding F17: expansion factors on both sides of the thresholds. In BATCHES per pulled element:
/// <= 16 (= CHANNEL_CAPACITY) can never jam, 17..33 can jam when the `Iterate` block is blocked
/// behind earlier elements, >= 34 (two channels + the feedback block) jams always.
fn gen_expanding(rng: &mut Rng) -> Case {
    let body = *rng.pick(EXPANDING);
    let shuffle = body.contains('s');
    let bm = *rng.pick(&["single", "fixed1", "fixed1", "fixed3", "adaptive"]);
    let b = batch_size(bm);
    let t = match rng.below(8) {
        0 => rng.range(3, 10),   // well below
        1 | 2 => rng.range(14, 16), // just below the first threshold
        3 => rng.range(17, 20),  // just above it
        4 => rng.range(30, 33),  // just below the second
        5 | 6 => rng.range(34, 37), // just above it
        _ => rng.range(45, 70),  // well above
    };
    let e = t * b + if b > 1 { rng.range(0, b - 1) } else { 0 };
    let cores = if shuffle { 1 } else { rng.range(1, 3) };
    // a single element (exact thresholds) or a few / many elements (the grey zone)
    let sizes: Vec<i64> = (0..cores)
        .map(|_| match rng.below(4) {
            0 | 1 => 1,
            2 => rng.range(2, 6),
            _ => rng.range(18, 40),
        })
        .collect();
    let total: i64 = sizes.iter().sum();
    // keep the job small: total * E^rounds <= 6000
    let mut rounds = 1;
    while rounds < 3 && (total as f64) * (e as f64).powi(rounds as i32 + 1) <= 6000.0 {
        rounds += 1;
    }
    let mut c = Case::new(&["loopcycle", &cores.to_string(), bm, &rounds.to_string(), body, &e.to_string()]);
    for (r, n) in sizes.iter().enumerate() {
        // `f` keeps the even values: start even, or odd when a `m` (x + 1) comes first, so that the first
        // element survives the filter
        let start = r as i64 * 100_000 + if body.starts_with('m') { 1 } else { 0 };
        c.ops(vec!["r".into(), r.to_string(), start.to_string(), n.to_string()]);
    }
    c
}

fn gen(rng: &mut Rng, i: usize) -> Case {
    if i % 10 == 3 || i % 10 == 7 || (i % 10 == 9 && rng.chance(1, 2)) {
        return gen_expanding(rng);
    }
    let cores = rng.range(1, 4);
    let bm = *rng.pick(&["single", "fixed1", "fixed1", "fixed3", "fixed3", "adaptive"]);
    let rounds = rng.range(1, 4);
    let body = BODIES[(i + rng.below(3) as usize) % BODIES.len()];
    let mut c = Case::new(&["loopcycle", &cores.to_string(), bm, &rounds.to_string(), body, "2"]);
    // the cycle of one replica holds ~34 batches; sizes in batches: 0, tiny, just below, at, far above
    let b = batch_size(bm);
    for r in 0..cores {
        let batches = match rng.below(10) {
            0 => 0,
            1 => rng.range(1, 4),
            2 => rng.range(20, 30),
            3 | 4 => rng.range(31, 40),
            _ => rng.range(45, 200),
        };
        let n = if bm == "adaptive" { (batches * b).min(1200) } else { (batches * b).min(360) };
        // one or two `r` lines per replica (the shrinker drops lines)
        if n > 4 && rng.chance(1, 3) {
            let k = rng.range(1, n - 1);
            c.ops(vec!["r".into(), r.to_string(), (r * 100_000).to_string(), k.to_string()]);
            c.ops(vec!["r".into(), r.to_string(), (r * 100_000 + k).to_string(), (n - k).to_string()]);
        } else {
            c.ops(vec!["r".into(), r.to_string(), (r * 100_000).to_string(), n.to_string()]);
        }
    }
    c
}

fn main() {
    run_main("loopcycle", gen, exec);
}
