//! C15 (CSV source): random quote-free CSV contents (one field per record) are written to a scratch file and
//! read by the REAL `CsvSource<(String,)>` in a real local environment with `n` replicas; every record is
//! tagged with the replica that read it (`renoir::verif::replica_coord()` in a fused `map`).
//!
//! header: `csv <n> <has_headers 0|1>`; ops: `bytes <b,b,…>` (content = concatenation of all op lines);
//! output: one line per replica `0..n`: `<replica> [[b,…],…]` (the records it emitted, in order, as the
//! byte lists of their single field).
use nvh::*;
use renoir::operator::source::CsvSource;
use renoir::{RuntimeConfig, StreamContext};
use std::sync::atomic::{AtomicUsize, Ordering};

static COUNTER: AtomicUsize = AtomicUsize::new(0);
const SCRATCH: &str = concat!(env!("CARGO_MANIFEST_DIR"), "/../.scratch");

/// Fixed boundary cases replayed first in every run: (replicas, has_headers, content).
const FIXED: [(u64, bool, &[u8]); 7] = [
    (3, true, b""),                          // empty file
    (3, true, b"h\n"),                       // header only
    (4, true, b"h"),                         // header only, not terminated
    (9, true, b"h\na\nb"),                   // more replicas than bytes, no final newline
    (3, false, b"aaaaaaaaaaaaaaaaaaaa\nb\n"), // a record longer than two ranges, no header
    (2, true, b"hh\r\nab\r\ncd\r\n"),        // CRLF, a boundary between \r and \n
    (2, false, b"ab\ncd\n"),                 // a record starting exactly at a range boundary
];

fn gen(rng: &mut Rng, i: usize) -> Case {
    if i < FIXED.len() {
        let (n, hh, bytes) = FIXED[i];
        let mut c = Case::new(&["csv", &n.to_string(), if hh { "1" } else { "0" }]);
        for b in bytes {
            c.ops(vec!["bytes".into(), b.to_string()]);
        }
        return c;
    }
    let n = match rng.below(10) {
        0 => 1,
        _ => rng.range(2, 9),
    };
    let hh = rng.chance(2, 3);
    let mut c = Case::new(&["csv", &n.to_string(), if hh { "1" } else { "0" }]);
    let letters = [b'a', b'b', b'c'];
    let mut bytes: Vec<u8> = vec![];
    let crlf = rng.below(3); // 0 never, 1 always, 2 mixed
    let term = |rng: &mut Rng, bytes: &mut Vec<u8>| {
        if crlf == 1 || (crlf == 2 && rng.chance(1, 2)) {
            bytes.push(b'\r');
        }
        bytes.push(b'\n');
    };
    if hh && !rng.chance(1, 15) {
        for _ in 0..rng.range(0, 6) {
            bytes.push(b'h');
        }
        if !rng.chance(1, 15) {
            term(rng, &mut bytes);
        }
    }
    let target = bytes.len()
        + match rng.below(4) {
            0 => rng.range(0, 8),
            1 => rng.range(0, 20),
            _ => rng.range(0, 70),
        } as usize;
    let maxlen = *rng.pick(&[1i64, 2, 3, 5, 12, 30]);
    let empties = rng.chance(1, 3);
    while bytes.len() < target {
        let len = if empties && rng.chance(1, 4) { 0 } else { rng.range(1, maxlen) };
        for _ in 0..len {
            bytes.push(*rng.pick(&letters));
        }
        term(rng, &mut bytes);
    }
    if rng.chance(1, 2) && !bytes.is_empty() {
        // last record without terminator
        for _ in 0..rng.range(1, maxlen) {
            bytes.push(*rng.pick(&letters));
        }
    }
    let mut i = 0;
    while i < bytes.len() {
        let k = (rng.range(1, 4) as usize).min(bytes.len() - i);
        let words: Vec<String> = bytes[i..i + k].iter().map(|b| b.to_string()).collect();
        c.ops(vec!["bytes".into(), words.join(",")]);
        i += k;
    }
    c
}

fn content(c: &Case) -> Vec<u8> {
    let mut bytes = vec![];
    for op in &c.ops {
        if op[0] != "bytes" || op.len() < 2 {
            continue;
        }
        for w in op[1].split(',') {
            if !w.is_empty() {
                bytes.push(w.parse::<u8>().expect("bad byte"));
            }
        }
    }
    bytes
}

fn exec(c: &Case) -> Vec<String> {
    let n: u64 = c.header[1].parse().unwrap();
    let hh = c.header[2] == "1";
    let bytes = content(c);
    std::fs::create_dir_all(SCRATCH).unwrap();
    let path = format!(
        "{SCRATCH}/c15csv-{}-{}.csv",
        std::process::id(),
        COUNTER.fetch_add(1, Ordering::SeqCst)
    );
    std::fs::write(&path, &bytes).unwrap();
    struct Rm(String);
    impl Drop for Rm {
        fn drop(&mut self) {
            let _ = std::fs::remove_file(&self.0);
        }
    }
    let _rm = Rm(path.clone());
    let ctx = StreamContext::new(RuntimeConfig::local(n).unwrap());
    let source = CsvSource::<(String,)>::new(&path).has_headers(hh);
    let out = ctx
        .stream(source)
        .map(move |r: (String,)| {
            (
                renoir::verif::replica_coord().expect("not on a worker thread").replica_id,
                r.0,
            )
        })
        .collect_vec();
    ctx.execute_blocking();
    let mut per: Vec<Vec<String>> = vec![vec![]; n as usize];
    for (r, rec) in out.get().expect("no output") {
        let w: Vec<String> = rec.as_bytes().iter().map(|x| x.to_string()).collect();
        per[r as usize].push(format!("[{}]", w.join(",")));
    }
    per.iter()
        .enumerate()
        .map(|(r, l)| format!("{r} [{}]", l.join(",")))
        .collect()
}

fn main() {
    run_main("csv", gen, exec);
}
