//! C15 (CSV source): random CSV contents (several fields per record, quoted fields with escaped quotes,
//! delimiters and line terminators inside quotes) are written to a scratch file and read by the REAL
//! `CsvSource<Vec<String>>` (`flexible(true)`, so that a fragment of a record is observable as data instead of
//! an `UnequalLengths` error) in a real local environment with `n` replicas; every record is tagged with the
//! replica that read it (`renoir::verif::replica_coord()` in a fused `map`).
//!
//! header: `csv <n> <has_headers 0|1>`;
//! ops: `bytes <b,b,…>` | `rep <count> <b,b,…>` (content = concatenation of all op lines, `rep` repeats its
//! pattern `count` times; every subset of the op lines is a valid case);
//! output: one line per replica `0..n`: `<replica> [<record>,…]`, a record = `[[b,…],…]` (its fields as
//! byte lists), in the order the replica emitted them.
use nvh::*;
use renoir::operator::source::CsvSource;
use renoir::{RuntimeConfig, StreamContext};
use std::sync::atomic::{AtomicUsize, Ordering};

static COUNTER: AtomicUsize = AtomicUsize::new(0);
const SCRATCH: &str = concat!(env!("CARGO_MANIFEST_DIR"), "/../.scratch");

/// Fixed cases replayed first in every run: (replicas, has_headers, content).
const FIXED: [(u64, bool, &[u8]); 16] = [
    // F13: a quoted first field containing a line feed; the boundary of 2 replicas falls inside it
    (2, false, b"\"aaaaaaaa\nb\"\nc\nd\n"),
    (1, false, b"\"aaaaaaaa\nb\"\nc\nd\n"),          // same file, one replica: fine
    (2, true, b"h\n\"aaaaaaaa\nb\"\nc\nd\n"),         // same with a header
    (1, true, b"\"h\nx\",k\na,b\n"),                  // F13b: quoted line feed in the header record, 1 replica
    (3, true, b"\"h\nx\",k\na,b\nc,d\ne,f\n"),        // F13b with 3 replicas
    (3, false, b"\"a\r\nbbbbbb\",x\r\n\"c\",y\r\n\"d\",z\r\n"), // CRLF inside quotes
    (2, false, b"\"a\"\"b\",c\n\"d,e\",f\n"),         // escaped quote, delimiter inside quotes
    (4, true, b"k,v\n\"x\ny\",1\nz,2\n\"p\nq\nr\",3\n"), // several quoted terminators
    (2, false, b"ab,\"cd\nef\"\ngh,ij\n"),            // terminator inside the second field
    (3, true, b""),                                   // empty file
    (3, true, b"h\n"),                                // header only
    (4, true, b"h"),                                  // header only, not terminated
    (9, true, b"h\na\nb"),                            // more replicas than bytes, no final newline
    (3, false, b"aaaaaaaaaaaaaaaaaaaa\nb\n"),         // a record longer than two ranges
    (2, true, b"hh\r\nab\r\ncd\r\n"),                 // CRLF, a boundary between \r and \n
    (2, false, b"ab\ncd\n"),                          // a record starting exactly at a range boundary
];

/// run-length encode the content into op lines
fn push_ops(c: &mut Case, bytes: &[u8], rng: &mut Rng) {
    let mut i = 0;
    while i < bytes.len() {
        let mut j = i;
        while j < bytes.len() && bytes[j] == bytes[i] {
            j += 1;
        }
        if j - i >= 8 {
            c.ops(vec!["rep".into(), (j - i).to_string(), bytes[i].to_string()]);
            i = j;
        } else {
            let k = (rng.range(1, 4) as usize).min(bytes.len() - i);
            let words: Vec<String> = bytes[i..i + k].iter().map(|b| b.to_string()).collect();
            c.ops(vec!["bytes".into(), words.join(",")]);
            i += k;
        }
    }
}

/// > 8 KiB: range boundaries at multiples of the BufReader capacity (8192), single-field records of `a`s,
/// a record end placed at `boundary + {-2,-1,0,1}` or a long record spanning the boundary.
fn gen_large(rng: &mut Rng) -> Case {
    let n = rng.range(2, 4) as usize;
    let hh = rng.chance(1, 2);
    let mut c = Case::new(&["csv", &n.to_string(), if hh { "1" } else { "0" }]);
    let hdr: &[u8] = if hh { b"h\n" } else { b"" };
    let body = 8192 * n + rng.range(0, n as i64 - 1) as usize;
    // offsets are relative to the body; the header shifts everything, so also try to hit absolute 8192
    let shift = if rng.chance(1, 2) { hdr.len() } else { 0 };
    let mut b = vec![b'a'; body];
    let mut p = rng.range(20, 400) as usize;
    while p < body {
        b[p] = b'\n';
        p += rng.range(2, 400) as usize;
    }
    for i in 1..n {
        let bd = 8192 * i - shift;
        if rng.chance(1, 3) {
            // a long record spanning the boundary
            for x in b.iter_mut().take((bd + 3000).min(body)).skip(bd.saturating_sub(3000)) {
                *x = b'a';
            }
        } else {
            let at = (bd as i64 + rng.range(-2, 1)) as usize;
            for x in b.iter_mut().take((at + 3).min(body)).skip(at.saturating_sub(3)) {
                *x = b'a';
            }
            b[at] = b'\n';
            if rng.chance(1, 3) {
                b[at - 1] = b'\r';
            }
        }
    }
    if rng.chance(1, 2) {
        b[body - 1] = b'\n';
    }
    let mut all = hdr.to_vec();
    all.extend(b);
    push_ops(&mut c, &all, rng);
    c
}

fn gen(rng: &mut Rng, i: usize) -> Case {
    if i < FIXED.len() {
        let (n, hh, bytes) = FIXED[i];
        let mut c = Case::new(&["csv", &n.to_string(), if hh { "1" } else { "0" }]);
        for b in bytes {
            c.ops(vec!["bytes".into(), b.to_string()]);
        }
        return c;
    }
    if rng.chance(1, 40) {
        return gen_large(rng);
    }
    let n = match rng.below(10) {
        0 => 1,
        _ => rng.range(2, 9),
    };
    let hh = rng.chance(1, 2);
    let mut c = Case::new(&["csv", &n.to_string(), if hh { "1" } else { "0" }]);
    let letters = [b'a', b'b', b'c'];
    let mut bytes: Vec<u8> = vec![];
    let crlf = rng.below(3); // 0 never, 1 always, 2 mixed
    let term = |rng: &mut Rng, bytes: &mut Vec<u8>| {
        if crlf == 1 || (crlf == 2 && rng.chance(1, 2)) {
            bytes.push(b'\r');
        }
        bytes.push(b'\n');
    };
    let k = rng.range(1, 3) as usize; // fields per record
    // how much quoting: 0 none, 1 harmless quoting only, 2 also terminators inside quotes
    let quoting = rng.below(3);
    let maxlen = *rng.pick(&[1i64, 2, 3, 5, 12, 30]);
    // 1 case in 8 of those with terminators inside quotes also allows them in the header record (F13b)
    let hdr_nl = rng.chance(1, 8);
    let field = |rng: &mut Rng, bytes: &mut Vec<u8>, header: bool| {
        let kind = if quoting == 0 { 0 } else { rng.below(if quoting == 2 && (!header || hdr_nl) { 6 } else { 4 }) };
        let lo = if k == 1 { 1 } else { 0 };
        match kind {
            0 | 1 => {
                for _ in 0..rng.range(lo, maxlen) {
                    bytes.push(if header { b'h' } else { *rng.pick(&letters) });
                }
            }
            _ => {
                bytes.push(b'"');
                let parts = rng.range(1, 3);
                for p in 0..parts {
                    for _ in 0..rng.range(if p == 0 { 1 } else { 0 }, maxlen.min(6)) {
                        bytes.push(*rng.pick(&letters));
                    }
                    if p + 1 < parts || rng.chance(1, 3) {
                        match kind {
                            2 => bytes.extend(b"\"\""),
                            3 => bytes.push(b','),
                            4 => bytes.push(b'\n'),
                            _ => bytes.extend(b"\r\n"),
                        }
                    }
                }
                bytes.push(b'"');
            }
        }
    };
    if hh {
        if rng.chance(1, 15) {
            // has_headers on an empty file
            return c;
        }
        // header record. `header_size` is computed with the same quote-blind `read_until(b'\n')`
        // (csv.rs:298-305), so a header with a quoted line terminator is cut as well, even with a single
        // replica — known finding F13b (`hdr_nl` cases)
        for f in 0..k {
            if f > 0 {
                bytes.push(b',');
            }
            field(rng, &mut bytes, true);
        }
        if rng.chance(1, 15) {
            // header only, not terminated
            push_ops(&mut c, &bytes, rng);
            return c;
        }
        term(rng, &mut bytes);
    }
    let target = bytes.len()
        + match rng.below(4) {
            0 => rng.range(0, 8),
            1 => rng.range(0, 20),
            _ => rng.range(0, 80),
        } as usize;
    let empties = rng.chance(1, 4);
    while bytes.len() < target {
        if empties && rng.chance(1, 5) {
            term(rng, &mut bytes);
            continue;
        }
        for f in 0..k {
            if f > 0 {
                bytes.push(b',');
            }
            field(rng, &mut bytes, false);
        }
        term(rng, &mut bytes);
    }
    if rng.chance(1, 2) && bytes.last() == Some(&b'\n') && bytes.len() > 1 {
        // last record without terminator
        bytes.pop();
        if bytes.last() == Some(&b'\r') {
            bytes.pop();
        }
    }
    push_ops(&mut c, &bytes, rng);
    c
}

fn content(c: &Case) -> Vec<u8> {
    let parse = |s: &str| -> Vec<u8> {
        s.split(',').filter(|w| !w.is_empty()).map(|w| w.parse::<u8>().expect("bad byte")).collect()
    };
    let mut bytes = vec![];
    for op in &c.ops {
        match (op[0].as_str(), op.len()) {
            ("bytes", 2) => bytes.extend(parse(&op[1])),
            ("rep", 3) => {
                let k: usize = op[1].parse().expect("bad count");
                let pat = parse(&op[2]);
                for _ in 0..k {
                    bytes.extend(&pat);
                }
            }
            _ => {}
        }
    }
    bytes
}

fn exec(c: &Case) -> Vec<String> {
    let n: u64 = c.header[1].parse().unwrap();
    let hh = c.header[2] == "1";
    let bytes = content(c);
    std::fs::create_dir_all(SCRATCH).unwrap();
    let path = format!(
        "{SCRATCH}/c15csv-{}-{}.csv",
        std::process::id(),
        COUNTER.fetch_add(1, Ordering::SeqCst)
    );
    std::fs::write(&path, &bytes).unwrap();
    struct Rm(String);
    impl Drop for Rm {
        fn drop(&mut self) {
            let _ = std::fs::remove_file(&self.0);
        }
    }
    let _rm = Rm(path.clone());
    let ctx = StreamContext::new(RuntimeConfig::local(n).unwrap());
    let source = CsvSource::<Vec<String>>::new(&path).has_headers(hh).flexible(true);
    let out = ctx
        .stream(source)
        .map(move |r: Vec<String>| {
            (
                renoir::verif::replica_coord().expect("not on a worker thread").replica_id,
                r,
            )
        })
        .collect_vec();
    ctx.execute_blocking();
    let mut per: Vec<Vec<String>> = vec![vec![]; n as usize];
    for (r, rec) in out.get().expect("no output") {
        let fields: Vec<String> = rec
            .iter()
            .map(|f| {
                let w: Vec<String> = f.as_bytes().iter().map(|x| x.to_string()).collect();
                format!("[{}]", w.join(","))
            })
            .collect();
        per[r as usize].push(format!("[{}]", fields.join(",")));
    }
    per.iter()
        .enumerate()
        .map(|(r, l)| format!("{r} [{}]", l.join(",")))
        .collect()
}

fn main() {
    run_main("csv", gen, exec);
}
