//! C07: the REAL `Fold` operator (`renoir::verif::ops::fold`) on a scripted upstream.
//! header: `fold <fn>`; ops: `e <elem>`; outputs: `<idx> <elem>` where `idx` is the index of the
//! last script element pulled before the output was returned.
#[path = "../c07_common.rs"]
mod common;
use common::*;
use nvh::*;
use renoir::verif::{ops, ScriptOp};

fn gen(rng: &mut Rng, _i: usize) -> Case {
    // per-component stream: components run with the same --seed must not draw identical sequences
    let rng = &mut Rng::new(rng.next() ^ 0xF01D_0000_0000_0001);
    let name = *rng.pick(FNS);
    let cfg = ScriptCfg {
        max_len: 12,
        allow_unsafe: true,
        allow_malformed: true,
        dup16: 3,
    };
    let script = gen_script(rng, &cfg, |r, seq| payload(r, name, seq));
    script_case(&["fold", name], &script)
}

fn exec(c: &Case) -> Vec<String> {
    let (init, f) = lib(&c.header[1]);
    let (probe, pulls) = Probe::new(ScriptOp::new(parse_script(c)));
    let op = ops::fold(probe, init, f);
    fmt_out(&drive(op, &pulls, |v| v))
}

fn main() {
    run_main("fold", gen, exec);
}
