//! C13: the real `TransactionWindowManager`.
//!
//! The user logic is scripted by the payload: every element is `(<key>,<cmd>,<arg>,<id>)` and the
//! logic function decodes `cmd`: 0 Continue, 1 Commit, 2 CommitAfter(arg), 3 Discard.
//! mode `mgr`: one manager (`TransactionWindow::new(logic).build(acc)` + `process`), output lines
//!   `<op index> I:[..]`;
//! mode `op`: the real keyed `WindowOperator` (`key_by(first component).window(..).fold(..)`),
//!   output lines = output elements, data lines between two control lines sorted.
//! header: `twin <mode>`; ops: `e <elem>`.
use nvh::*;
use renoir::operator::window::{TransactionOp, TransactionWindow, WindowAccumulator, WindowDescription, WindowManager, WindowResult};
use renoir::operator::{Operator, StreamElement};
use renoir::verif::{take_ops_keyed, Coord, FakeNet, ScriptOp};
use renoir::{BatchMode, StreamContext};

#[derive(Clone, Default)]
struct Collect(Vec<Val>);
impl WindowAccumulator for Collect {
    type In = Val;
    type Out = Val;
    fn process(&mut self, el: Val) {
        self.0.push(el)
    }
    fn output(self) -> Val {
        Val::List(self.0)
    }
}

fn key_of(v: &Val) -> Val {
    match v {
        Val::Tup(l) if !l.is_empty() => l[0].clone(),
        v => v.clone(),
    }
}

fn logic(v: &Val) -> TransactionOp {
    match v {
        Val::Tup(l) if l.len() >= 3 => match (&l[1], &l[2]) {
            (Val::Int(1), _) => TransactionOp::Commit,
            (Val::Int(2), Val::Int(t)) => TransactionOp::CommitAfter(*t),
            (Val::Int(3), _) => TransactionOp::Discard,
            _ => TransactionOp::Continue,
        },
        _ => TransactionOp::Continue,
    }
}

fn gen(rng: &mut Rng, i: usize) -> Case {
    let op_mode = rng.chance(2, 5);
    let malformed = rng.chance(1, 25);
    let nkeys = if op_mode { rng.range(1, 3) } else { 1 };
    let mut c = Case::new(&["twin", if op_mode { "op" } else { "mgr" }]);
    let mut id = (i as i64 % 1000) * 100;
    let iters = rng.range(1, 3);
    let mut cur = rng.range(0, 10);
    for _ in 0..iters {
        let mut lw: Option<i64> = None;
        let steps = match rng.below(6) {
            0 => 0,
            _ => rng.range(1, 20),
        };
        for _ in 0..steps {
            match rng.below(10) {
                0..=5 => {
                    id += 1;
                    cur += rng.range(0, 2);
                    let ts = cur.max(lw.map(|w| w + 1).unwrap_or(i64::MIN));
                    let k = rng.range(0, nkeys - 1);
                    let (cmd, arg) = match rng.below(10) {
                        0..=3 => (0, 0),
                        4..=5 => (1, 0),
                        // close time around the current time: before, at, after the next watermarks
                        6..=8 => (2, cur + rng.range(-2, 4)),
                        _ => (3, 0),
                    };
                    let v = Val::Tup(vec![Val::Int(k), Val::Int(cmd), Val::Int(arg), Val::Int(id)]);
                    if malformed && rng.chance(1, 5) {
                        c.ops(vec!["e".into(), fmt_elem(&StreamElement::Item(v))]);
                    } else {
                        c.ops(vec!["e".into(), fmt_elem(&StreamElement::Timestamped(v, ts))]);
                    }
                }
                6..=8 => {
                    let w = (cur + rng.range(-1, 3)).max(lw.map(|w| w + 1).unwrap_or(i64::MIN));
                    c.ops(vec!["e".into(), format!("W:{w}")]);
                    lw = Some(w);
                    cur = cur.max(w);
                }
                _ => c.op(&["e", "FB"]),
            }
        }
        c.op(&["e", "FAR"]);
    }
    c.op(&["e", "TERM"]);
    c
}

fn res_elem(r: WindowResult<Val>) -> StreamElement<Val> {
    match r {
        WindowResult::Item(v) => StreamElement::Item(v),
        WindowResult::Timestamped(v, t) => StreamElement::Timestamped(v, t),
    }
}

fn exec_mgr(c: &Case) -> Vec<String> {
    let mut mgr = TransactionWindow::new(logic).build(Collect::default());
    let mut out = vec![];
    let mut idx = 0usize;
    for op in &c.ops {
        if op[0] != "e" {
            continue;
        }
        let e = parse_elem(&op[1]).expect("bad elem");
        if let Some(r) = mgr.process(e) {
            out.push(format!("{idx} {}", fmt_elem(&res_elem(r))));
        }
        idx += 1;
    }
    out
}

fn canon(lines: Vec<(bool, String)>) -> Vec<String> {
    let mut out = vec![];
    let mut unit: Vec<String> = vec![];
    for (is_data, l) in lines {
        if is_data {
            unit.push(l);
        } else {
            unit.sort();
            out.append(&mut unit);
            out.push(l);
        }
    }
    unit.sort();
    out.append(&mut unit);
    out
}

fn exec_op(c: &Case) -> Vec<String> {
    let script: Vec<StreamElement<Val>> =
        c.ops.iter().filter(|op| op[0] == "e").map(|op| parse_elem(&op[1]).expect("bad elem")).collect();
    let ctx = StreamContext::new_local();
    let s = ctx
        .stream(ScriptOp::new(script))
        .key_by(key_of)
        .window(TransactionWindow::new(logic))
        .fold(Vec::new(), |v: &mut Vec<Val>, x: Val| v.push(x));
    let mut op = take_ops_keyed(s);
    let me = Coord::new(0, 0, 0);
    let mut net = FakeNet::new(me);
    net.with_metadata(vec![me], 0, BatchMode::fixed(1), |m| op.setup(m));
    let mut lines = vec![];
    loop {
        let e = op.next();
        let term = matches!(e, StreamElement::Terminate);
        let is_data = matches!(e, StreamElement::Item(_) | StreamElement::Timestamped(_, _));
        let e = e.map(|(k, v)| Val::pair(k, Val::List(v)));
        lines.push((is_data, fmt_elem(&e)));
        if term {
            break;
        }
    }
    canon(lines)
}

fn exec(c: &Case) -> Vec<String> {
    if c.header[1] == "op" {
        exec_op(c)
    } else {
        exec_mgr(c)
    }
}

fn main() {
    run_main("twin", gen, exec);
}
