//! C03: the REAL `End` operator on a fake topology.
//!
//! header: `end <OnlyOne|Random|GroupBy|All> <me b.h.r> <feedback block | ->`
//! ops:    `next <b.h.r> <fragile 0|1>`   downstream replicas, in `connect` order
//!         `ignore <block>`               `End::ignore_destination`
//!         `e <elem>`                     scripted element; payloads are `(hash,value)`; the hash
//!                                        is what the `GroupBy` keyer returns (as i64 bits)
//! outputs: one line per step and distinct element received at that step:
//!         `<step> <elem> <receiver b.h.r,…>` (sorted), for `Random`
//!         `<step> <elem> R <block>:<#receivers>,…` for data elements.
use nvh::*;
use renoir::operator::{Operator, StreamElement};
use renoir::verif::ops::{self, Strategy};
use renoir::verif::{Coord, FakeNet, FakeReceiver, ScriptOp};
use renoir::BatchMode;

fn parse_coord(s: &str) -> Coord {
    let p: Vec<u64> = s.split('.').map(|x| x.parse().expect("bad coord")).collect();
    Coord::new(p[0], p[1], p[2])
}

fn coord(c: &Coord) -> String {
    format!("{}.{}.{}", c.block_id, c.host_id, c.replica_id)
}

fn hash_of(v: &Val) -> u64 {
    match v {
        Val::Tup(l) => l[0].int() as u64,
        v => v.int() as u64,
    }
}

/// One producer replica `me`: build the fake topology from the `<next_kw>` lines, run the real
/// `End` over the `<elem_kw>` script, return the output lines (prefixed with `tag`).
fn run_producer(c: &Case, me: Coord, next_kw: &str, elem_kw: &str, tag: &str) -> Vec<String> {
    let strategy = c.header[1].as_str();
    let feedback: Option<u64> = c.header[3].parse().ok();
    let mut net = FakeNet::new(me);
    let mut receivers: Vec<FakeReceiver<Val>> = vec![];
    let mut ignore = vec![];
    let mut script = vec![];
    for op in &c.ops {
        let kw = op[0].as_str();
        if kw == next_kw {
            let to = parse_coord(&op[1]);
            if receivers.iter().any(|r| r.to == to) {
                continue; // a replica is connected once
            }
            receivers.push(net.add_next::<Val>(to, op[2] == "1"));
        } else if kw == "ignore" {
            ignore.push(op[1].parse::<u64>().unwrap());
        } else if kw == elem_kw {
            script.push(parse_elem(&op[1]).expect("bad elem"));
        }
    }
    let n = script.len();
    let s = match strategy {
        "OnlyOne" => Strategy::OnlyOne,
        "Random" => Strategy::Random,
        "GroupBy" => Strategy::GroupBy(hash_of as fn(&Val) -> u64),
        _ => Strategy::All,
    };
    let mut end = ops::end(ScriptOp::new(script), s, BatchMode::single(), feedback, &ignore);
    net.with_metadata(vec![me], 0, BatchMode::single(), |m| end.setup(m));
    let mut out = vec![];
    for step in 0..n {
        end.next();
        // drain every receiver
        let mut got: Vec<(StreamElement<Val>, Vec<Coord>)> = vec![];
        for r in &receivers {
            while let Some((from, batch)) = r.try_recv() {
                assert_eq!(from, me, "sender coordinate of the message");
                for e in batch {
                    match got.iter_mut().find(|(x, _)| *x == e) {
                        Some((_, l)) => l.push(r.to),
                        None => got.push((e, vec![r.to])),
                    }
                }
            }
        }
        for (e, mut l) in got {
            l.sort();
            let data = matches!(e, StreamElement::Item(_) | StreamElement::Timestamped(_, _));
            if strategy == "Random" && data {
                let mut per: Vec<(u64, usize)> = vec![];
                for c in &l {
                    match per.iter_mut().find(|(b, _)| *b == c.block_id) {
                        Some((_, k)) => *k += 1,
                        None => per.push((c.block_id, 1)),
                    }
                }
                let t: Vec<String> = per.iter().map(|(b, k)| format!("{b}:{k}")).collect();
                out.push(format!("{tag}{step} {} R {}", fmt_elem(&e), t.join(",")));
            } else {
                let t: Vec<String> = l.iter().map(coord).collect();
                out.push(format!("{tag}{step} {} {}", fmt_elem(&e), t.join(",")));
            }
        }
    }
    out
}

/// The optional second producer (`header[4]`, lines `next2` / `e2`, outputs prefixed `P2 `) is
/// another replica — of the same or of another block — with its own `End` and its own connection
/// order towards (mostly) the same downstream replicas.
fn exec(c: &Case) -> Vec<String> {
    let mut out = run_producer(c, parse_coord(&c.header[2]), "next", "e", "");
    if let Some(me2) = c.header.get(4).filter(|s| s.contains('.')) {
        out.extend(run_producer(c, parse_coord(me2), "next2", "e2", "P2 "));
    }
    out
}

fn gen(rng: &mut Rng, i: usize) -> Case {
    let malformed = i % 12 == 5;
    let strategy = *rng.pick(&["OnlyOne", "Random", "GroupBy", "GroupBy", "All"]);
    let me_block = rng.range(0, 3) as u64;
    // `FakeNet` is a local topology of host 0: a link between two remote replicas is not registered
    let me = format!("{}.0.{}", me_block, rng.range(0, 3));
    // 1-3 downstream blocks × 1-7 replicas on 1-3 hosts
    let nblocks = rng.range(if malformed { 0 } else { 1 }, 3);
    let mut blocks: Vec<u64> = vec![];
    while (blocks.len() as i64) < nblocks {
        let b = rng.range(0, 9) as u64;
        if b != me_block && !blocks.contains(&b) {
            blocks.push(b);
        }
    }
    let feedback = if rng.chance(1, 3) && !blocks.is_empty() {
        if rng.chance(4, 5) { rng.pick(&blocks).to_string() } else { "77".into() }
    } else {
        "-".into()
    };
    let mut c = Case::new(&["end", strategy, &me, &feedback]);
    let mut nexts: Vec<(String, bool)> = vec![];
    for &b in &blocks {
        let nrep = if strategy == "OnlyOne" && !(malformed && rng.chance(1, 2)) { 1 } else { rng.range(1, 7) };
        let nhosts = rng.range(1, 3);
        let fragile_block = rng.chance(1, 8);
        let mut per_host = vec![0u64; nhosts as usize];
        for _ in 0..nrep {
            let h = rng.below(nhosts as u64) as usize;
            nexts.push((format!("{b}.{h}.{}", per_host[h]), fragile_block));
            per_host[h] += 1;
        }
    }
    // connection order is arbitrary (hash-map iteration in the scheduler)
    for k in (1..nexts.len()).rev() {
        let j = rng.below(k as u64 + 1) as usize;
        nexts.swap(k, j);
    }
    for (n, f) in &nexts {
        c.op(&["next", n, if *f { "1" } else { "0" }]);
    }
    if rng.chance(1, 5) && !blocks.is_empty() {
        c.ops(vec!["ignore".into(), rng.pick(&blocks).to_string()]);
    }
    // a small key universe so that equal keys repeat; hashes are the real group_by_hash values,
    // small numbers (boundaries of `% len`) or huge ones
    let keys: Vec<i64> = (0..rng.range(1, 6))
        .map(|k| match rng.below(3) {
            0 => renoir::group_by_hash(&k) as i64,
            1 => rng.range(0, 15),
            _ => (rng.next() >> rng.below(3)) as i64,
        })
        .collect();
    let iters = rng.range(1, 2);
    let mut v = 0i64;
    for _ in 0..iters {
        for _ in 0..rng.range(0, 10) {
            let h = *rng.pick(&keys);
            v += 1;
            let e = if rng.chance(1, 3) { format!("T:({h},{v}):{}", rng.range(0, 50)) } else { format!("I:({h},{v})") };
            c.ops(vec!["e".into(), e]);
            if rng.chance(1, 8) {
                c.ops(vec!["e".into(), format!("W:{}", rng.range(0, 50))]);
            }
            if rng.chance(1, 10) {
                c.op(&["e", "FB"]);
            }
        }
        c.op(&["e", "FAR"]);
    }
    c.op(&["e", "TERM"]);
    // a second producer replica (another replica of the same block, or a replica of another
    // block — the two inputs of a join) towards the same downstream replicas, connected in its
    // own order; sometimes one downstream replica is missing for it
    if !malformed && strategy != "OnlyOne" && rng.chance(2, 5) {
        let me2 = if rng.chance(1, 2) {
            format!("{}.0.{}", me_block, 4 + rng.range(0, 3))
        } else {
            let mut b2 = 10 + rng.range(0, 3) as u64;
            while blocks.contains(&b2) {
                b2 += 1;
            }
            format!("{b2}.0.{}", rng.range(0, 3))
        };
        c.header.push(me2);
        let mut nexts2 = nexts.clone();
        if rng.chance(1, 6) && nexts2.len() > 1 {
            let j = rng.below(nexts2.len() as u64) as usize;
            nexts2.remove(j);
        }
        for k in (1..nexts2.len()).rev() {
            let j = rng.below(k as u64 + 1) as usize;
            nexts2.swap(k, j);
        }
        for (n, f) in &nexts2 {
            c.op(&["next2", n, if *f { "1" } else { "0" }]);
        }
        for _ in 0..rng.range(1, 10) {
            let h = *rng.pick(&keys);
            v += 1;
            let e = if rng.chance(1, 3) { format!("T:({h},{v}):{}", rng.range(0, 50)) } else { format!("I:({h},{v})") };
            c.ops(vec!["e2".into(), e]);
        }
        c.op(&["e2", "FAR"]);
        c.op(&["e2", "TERM"]);
    }
    if malformed && rng.chance(1, 2) {
        c.ops(vec!["e".into(), (*rng.pick(&["W:3", "I:(1,1)", "FB", "TERM", "FAR"])).into()]);
    }
    c
}

fn main() {
    run_main("end", gen, exec);
}
