//! C12, keyed: the REAL `WindowOperator` with count windows and the REAL window aggregators of
//! src/operator/window/aggr/, through the public API.
//!
//! header: `cwinop <N> <S> <exact> <agg> <mode>`; ops: `e <elem>` with payloads `(<key>,<id>,<v>)`.
//!
//! agg (what follows `.window(CountWindow::new(n, s, exact))`):
//!   collect `.fold(Vec::new(), push)`        map   `.map(|v: Vec<_>| v)` (CollectVec)
//!   sum     `.sum::<SumV>()` (Fold)           count `.count()`
//!   min/max `.min()`/`.max()` on the values `v` (FoldFirst)
//!   mink/maxk `.min_by_key(v)`/`.max_by_key(v)` on the payloads (ties: the first one wins)
//!   first/last `.first()`/`.last()`           foldnc `.fold(0, |s, x| s = (31 s + v) mod 1000003)`
//!
//! mode `op`: `stream(Script).key_by(first component).window(..).<agg>`, chain taken out with
//!   `take_ops_keyed`, pulled until `Terminate`. `Script` is a source defined HERE (public traits
//!   `Operator` + `Source`) that replays the op lines and records how many elements were pulled and
//!   whether the last one was a control element. Output lines `<n> <d|c> <elem>`: the operator's
//!   output elements in order, `n` = number of data elements pulled so far, `d`/`c` = the element
//!   pulled last (the one that triggered this output) was a data / control element. The results
//!   triggered by ONE input element are sorted (hash-map order of the managers at
//!   `FlushAndRestart`/`Terminate`).
//! mode `seq<P>`: whole engine, `StreamContext::new(RuntimeConfig::local(P))`:
//!   `stream_iter(data).group_by(key).window(..).<agg>.collect_vec()` (one source replica, so the
//!   arrival order per key is the script order); control op lines are ignored. Output: one line
//!   `<key> [<results of the key in order>]` per key, sorted.
//! mode `par<P>`: the same with `stream_par_iter` (P source replicas: the arrival order per key is
//!   not determined) — only generated with `count`, whose results do not depend on the order.
use std::collections::{BTreeMap, VecDeque};
use std::fmt::{self, Display};
use std::ops::AddAssign;
use std::sync::atomic::{AtomicBool, AtomicUsize, Ordering};
use std::sync::Arc;

use nvh::*;
use renoir::operator::source::Source;
use renoir::operator::window::CountWindow;
use renoir::operator::{Operator, StreamElement};
use renoir::structure::{BlockStructure, OperatorStructure};
use renoir::verif::{take_ops_keyed, Coord, FakeNet};
use renoir::{BatchMode, ExecutionMetadata, KeyedStream, Replication, RuntimeConfig, StreamContext};

const AGGS: [&str; 11] = ["collect", "map", "sum", "count", "min", "max", "mink", "maxk", "first", "last", "foldnc"];

fn key_of(v: &Val) -> Val {
    match v {
        Val::Tup(l) if !l.is_empty() => l[0].clone(),
        v => v.clone(),
    }
}

/// third component of the payload
fn val_of(v: &Val) -> i64 {
    match v {
        Val::Tup(l) if l.len() >= 3 => match &l[2] {
            Val::Int(n) => *n,
            _ => 0,
        },
        _ => 0,
    }
}

/// accumulator of `.sum()`: `NewOut: Default + AddAssign<Out>`
#[derive(Clone, Default)]
struct SumV(i64);
impl AddAssign<Val> for SumV {
    fn add_assign(&mut self, rhs: Val) {
        self.0 += val_of(&rhs);
    }
}

/// The source: replays a script, observable from outside.
#[derive(Clone)]
struct Script {
    buf: VecDeque<StreamElement<Val>>,
    pulled: Arc<AtomicUsize>,
    data: Arc<AtomicUsize>,
    last_ctrl: Arc<AtomicBool>,
}
impl Display for Script {
    fn fmt(&self, f: &mut fmt::Formatter<'_>) -> fmt::Result {
        write!(f, "Script")
    }
}
impl Operator for Script {
    type Out = Val;
    fn setup(&mut self, _metadata: &mut ExecutionMetadata) {}
    fn next(&mut self) -> StreamElement<Val> {
        let e = self.buf.pop_front().unwrap_or(StreamElement::Terminate);
        let is_data = matches!(e, StreamElement::Item(_) | StreamElement::Timestamped(_, _));
        self.pulled.fetch_add(1, Ordering::SeqCst);
        if is_data {
            self.data.fetch_add(1, Ordering::SeqCst);
        }
        self.last_ctrl.store(!is_data, Ordering::SeqCst);
        e
    }
    fn structure(&self) -> BlockStructure {
        BlockStructure::default().add_operator(OperatorStructure::new::<Val, _>("Script"))
    }
}
impl Source for Script {
    fn replication(&self) -> Replication {
        Replication::One
    }
}

/// what to do with the aggregated keyed stream (its operator type differs per aggregator)
trait Cont {
    type R;
    fn run<Op: Operator<Out = (Val, Val)> + 'static>(self, ks: KeyedStream<Op>) -> Self::R;
}

fn apply_agg<Op, C>(ks: KeyedStream<Op>, cw: CountWindow, agg: &str, c: C) -> C::R
where
    Op: Operator<Out = (Val, Val)> + 'static,
    C: Cont,
{
    match agg {
        "collect" => c.run(ks.window(cw).fold(Vec::new(), |v: &mut Vec<Val>, x: Val| v.push(x)).map(|(_, v)| Val::List(v))),
        "map" => c.run(ks.window(cw).map(|v: Vec<Val>| v).map(|(_, v)| Val::List(v))),
        "sum" => c.run(ks.window(cw).sum::<SumV>().map(|(_, s)| Val::Int(s.0))),
        "count" => c.run(ks.window(cw).count().map(|(_, n)| Val::Int(n as i64))),
        "min" => c.run(ks.map(|(_, v)| val_of(&v)).window(cw).min().map(|(_, x)| Val::Int(x))),
        "max" => c.run(ks.map(|(_, v)| val_of(&v)).window(cw).max().map(|(_, x)| Val::Int(x))),
        "mink" => c.run(ks.window(cw).min_by_key(|p: &Val| val_of(p))),
        "maxk" => c.run(ks.window(cw).max_by_key(|p: &Val| val_of(p))),
        "first" => c.run(ks.window(cw).first()),
        "last" => c.run(ks.window(cw).last()),
        "foldnc" => c.run(
            ks.window(cw)
                .fold(0i64, |s: &mut i64, x: Val| *s = (*s * 31 + val_of(&x)).rem_euclid(1_000_003))
                .map(|(_, s)| Val::Int(s)),
        ),
        other => panic!("unknown aggregator {other}"),
    }
}

/// `op` mode continuation: pull the chain until `Terminate`
struct Pull {
    pulled: Arc<AtomicUsize>,
    data: Arc<AtomicUsize>,
    last_ctrl: Arc<AtomicBool>,
}
impl Cont for Pull {
    type R = Vec<String>;
    fn run<Op: Operator<Out = (Val, Val)> + 'static>(self, ks: KeyedStream<Op>) -> Vec<String> {
        let mut op = take_ops_keyed(ks);
        let me = Coord::new(0, 0, 0);
        let mut net = FakeNet::new(me);
        net.with_metadata(vec![me], 0, BatchMode::fixed(1), |m| op.setup(m));
        // (is data line, index of the triggering input element, text)
        let mut lines: Vec<(bool, usize, String)> = vec![];
        loop {
            let e = op.next();
            let pulled = self.pulled.load(Ordering::SeqCst);
            let n = self.data.load(Ordering::SeqCst);
            let flag = if self.last_ctrl.load(Ordering::SeqCst) { "c" } else { "d" };
            let term = matches!(e, StreamElement::Terminate);
            let is_data = matches!(e, StreamElement::Item(_) | StreamElement::Timestamped(_, _));
            let e = e.map(|(k, v)| Val::pair(k, v));
            lines.push((is_data, pulled, format!("{n} {flag} {}", fmt_elem(&e))));
            if term {
                break;
            }
        }
        // sort the results triggered by one input element
        let mut out = vec![];
        let mut unit: Vec<String> = vec![];
        let mut unit_at = 0usize;
        for (is_data, at, l) in lines {
            if is_data && (unit.is_empty() || unit_at == at) {
                unit_at = at;
                unit.push(l);
                continue;
            }
            unit.sort();
            out.append(&mut unit);
            if is_data {
                unit_at = at;
                unit.push(l);
            } else {
                out.push(l);
            }
        }
        unit.sort();
        out.append(&mut unit);
        out
    }
}

/// engine mode continuation: collect
struct Collect;
impl Cont for Collect {
    type R = renoir::prelude::StreamOutput<Vec<(Val, Val)>>;
    fn run<Op: Operator<Out = (Val, Val)> + 'static>(self, ks: KeyedStream<Op>) -> Self::R {
        ks.collect_vec()
    }
}

fn script_of(c: &Case) -> Vec<StreamElement<Val>> {
    c.ops.iter().filter(|op| op[0] == "e").map(|op| parse_elem(&op[1]).expect("bad elem")).collect()
}

fn exec(c: &Case) -> Vec<String> {
    let n: usize = c.header[1].parse().unwrap();
    let s: usize = c.header[2].parse().unwrap();
    let exact = c.header[3] == "1";
    let agg = c.header.get(4).map(|s| s.as_str()).unwrap_or("collect");
    let mode = c.header.get(5).map(|s| s.as_str()).unwrap_or("op");
    let script = script_of(c);
    let cw = CountWindow::new(n, s, exact);
    if mode == "op" {
        let pulled = Arc::new(AtomicUsize::new(0));
        let data = Arc::new(AtomicUsize::new(0));
        let last_ctrl = Arc::new(AtomicBool::new(false));
        let src = Script { buf: script.into(), pulled: pulled.clone(), data: data.clone(), last_ctrl: last_ctrl.clone() };
        let ctx = StreamContext::new_local();
        let ks = ctx.stream(src).key_by(key_of);
        return apply_agg(ks, cw, agg, Pull { pulled, data, last_ctrl });
    }
    // whole engine
    let par: u64 = mode[3..].parse().unwrap();
    let items: Vec<Val> = script
        .into_iter()
        .filter_map(|e| match e {
            StreamElement::Item(v) | StreamElement::Timestamped(v, _) => Some(v),
            _ => None,
        })
        .collect();
    let ctx = StreamContext::new(RuntimeConfig::local(par).unwrap());
    let out = if mode.starts_with("seq") {
        let ks = ctx.stream_iter(items.into_iter()).group_by(key_of);
        apply_agg(ks, cw, agg, Collect)
    } else {
        let ks = ctx
            .stream_par_iter(move |id: u64, peers: u64| {
                items.clone().into_iter().skip(id as usize).step_by(peers as usize)
            })
            .group_by(key_of);
        apply_agg(ks, cw, agg, Collect)
    };
    ctx.execute_blocking();
    let res = out.get().unwrap_or_default();
    let mut per_key: BTreeMap<i64, Vec<Val>> = BTreeMap::new();
    for (k, v) in res {
        per_key.entry(k.int()).or_default().push(v);
    }
    per_key.into_iter().map(|(k, vs)| format!("{k} {}", Val::List(vs))).collect()
}

fn gen(rng: &mut Rng, i: usize) -> Case {
    // boundary-seeking (N, S): S = 1, S = N, S | N, arbitrary S <= N; one case in four with a
    // large window (N up to 40) and a slide that is not a small divisor of N
    let large = rng.chance(1, 4);
    let n = if large {
        rng.range(8, 40) as usize
    } else if rng.chance(1, 10) {
        1
    } else {
        rng.range(2, 7) as usize
    };
    let s = if large {
        match rng.below(4) {
            0 => rng.range(1, 3) as usize,                                  // N/S large: many open slots
            1 => rng.range((n as i64) / 2, n as i64) as usize,             // about two open slots
            2 => {
                let nd: Vec<usize> = (2..n).filter(|d| n % d != 0).collect(); // S does not divide N
                if nd.is_empty() { n } else { *rng.pick(&nd) }
            }
            _ => rng.range(1, n as i64) as usize,
        }
    } else {
        match rng.below(6) {
            0 => 1,
            1 => n,
            2 => {
                let d: Vec<usize> = (1..=n).filter(|d| n % d == 0).collect();
                *rng.pick(&d)
            }
            _ => rng.range(1, n as i64) as usize,
        }
    };
    let exact = rng.chance(1, 2);
    let mode = match rng.below(12) {
        0 => format!("seq{}", rng.range(1, 4)),
        1 => format!("par{}", rng.range(1, 4)),
        _ => "op".to_string(),
    };
    let agg = if mode.starts_with("par") { "count" } else { *rng.pick(&AGGS) };
    let mut c = Case::new(&["cwinop", &n.to_string(), &s.to_string(), if exact { "1" } else { "0" }, agg, &mode]);
    let nkeys = if large { rng.range(1, 2) } else { rng.range(1, 4) };
    // skew: 0 = uniform, 1 = min of two draws, 2 = one hot key
    let skew = rng.below(3);
    let iters = if mode == "op" { rng.range(1, 3) } else { 1 };
    let mut next = (i as i64 % 1000) * 100;
    let total = if large { 110 } else { 54 };
    let budget = total / iters;
    for _ in 0..iters {
        let len = match rng.below(7) {
            0 => 0,
            1 => rng.range(0, n as i64),
            2 => ((n as i64) + (s as i64) * rng.range(0, 3)) * nkeys.min(2),
            _ => rng.range(0, budget),
        }
        .min(budget);
        let timestamped = rng.chance(1, 3);
        let mut t = 0i64;
        for _ in 0..len {
            next += 1;
            let k = match skew {
                0 => rng.range(0, nkeys - 1),
                1 => rng.range(0, nkeys - 1).min(rng.range(0, nkeys - 1)),
                _ => {
                    if rng.chance(3, 4) {
                        0
                    } else {
                        rng.range(0, nkeys - 1)
                    }
                }
            };
            // small value range: ties for min/max
            let v = Val::Tup(vec![Val::Int(k), Val::Int(next), Val::Int(rng.range(-6, 6))]);
            if timestamped {
                t += rng.range(-2, 5);
                c.ops(vec!["e".into(), fmt_elem(&StreamElement::Timestamped(v, t))]);
            } else {
                c.ops(vec!["e".into(), fmt_elem(&StreamElement::Item(v))]);
            }
            if mode == "op" {
                if rng.chance(1, 12) {
                    c.op(&["e", "FB"]);
                }
                if rng.chance(1, 12) {
                    c.ops(vec!["e".into(), format!("W:{t}")]);
                }
            }
        }
        c.op(&["e", "FAR"]);
    }
    c.op(&["e", "TERM"]);
    c
}

fn main() {
    run_main("cwinop", gen, exec);
}
