//! C12, keyed: the REAL `WindowOperator` with count windows, through the public API
//! `stream(ScriptOp).key_by(first component).window(CountWindow::new(n, s, exact)).fold(Vec::new(), push)`,
//! chain taken out with `take_ops_keyed` and pulled until `Terminate`.
//!
//! header: `cwinop <N> <S> <exact>`; ops: `e <elem>` with payloads `(<key>,<id>)`.
//! output lines: `<n> <elem>` — the operator's output elements in order, `n` = number of data
//! elements the operator had consumed when `next()` returned the element (observed through the
//! `key_by` closure, which `KeyBy::next` calls exactly once per data element). A count-window
//! manager yields at most one result per data element, several managers yield results at
//! `FlushAndRestart`/`Terminate` in hash-map order: maximal runs of data lines with equal `n` are
//! sorted (on both sides).
use std::sync::atomic::{AtomicUsize, Ordering};
use std::sync::Arc;

use nvh::*;
use renoir::operator::window::CountWindow;
use renoir::operator::{Operator, StreamElement};
use renoir::verif::{take_ops_keyed, Coord, FakeNet, ScriptOp};
use renoir::{BatchMode, StreamContext};

fn key_of(v: &Val) -> Val {
    match v {
        Val::Tup(l) if !l.is_empty() => l[0].clone(),
        v => v.clone(),
    }
}

fn gen(rng: &mut Rng, i: usize) -> Case {
    // boundary-seeking (N, S) as in cwin.rs: S = 1, S = N, S | N, arbitrary S <= N
    let n = if rng.chance(1, 10) { 1 } else { rng.range(2, 7) as usize };
    let s = match rng.below(6) {
        0 => 1,
        1 => n,
        2 => {
            let d: Vec<usize> = (1..=n).filter(|d| n % d == 0).collect();
            *rng.pick(&d)
        }
        _ => rng.range(1, n as i64) as usize,
    };
    let exact = rng.chance(1, 2);
    let mut c = Case::new(&["cwinop", &n.to_string(), &s.to_string(), if exact { "1" } else { "0" }]);
    let nkeys = rng.range(1, 4);
    // skew: 0 = uniform, 1 = min of two draws, 2 = one hot key
    let skew = rng.below(3);
    let iters = rng.range(1, 3);
    let mut next = (i as i64 % 1000) * 100;
    let budget = 54 / iters;
    for _ in 0..iters {
        let len = match rng.below(7) {
            0 => 0,
            1 => rng.range(0, n as i64),
            2 => ((n as i64) + (s as i64) * rng.range(0, 3)) * nkeys.min(2),
            _ => rng.range(0, budget),
        }
        .min(budget);
        let timestamped = rng.chance(1, 3);
        let mut t = 0i64;
        for _ in 0..len {
            next += 1;
            let k = match skew {
                0 => rng.range(0, nkeys - 1),
                1 => rng.range(0, nkeys - 1).min(rng.range(0, nkeys - 1)),
                _ => {
                    if rng.chance(3, 4) {
                        0
                    } else {
                        rng.range(0, nkeys - 1)
                    }
                }
            };
            let v = Val::pair(Val::Int(k), Val::Int(next));
            if timestamped {
                t += rng.range(-2, 5);
                c.ops(vec!["e".into(), fmt_elem(&StreamElement::Timestamped(v, t))]);
            } else {
                c.ops(vec!["e".into(), fmt_elem(&StreamElement::Item(v))]);
            }
            if rng.chance(1, 12) {
                c.op(&["e", "FB"]);
            }
            if rng.chance(1, 12) {
                c.ops(vec!["e".into(), format!("W:{t}")]);
            }
        }
        c.op(&["e", "FAR"]);
    }
    c.op(&["e", "TERM"]);
    c
}

/// sort every maximal run of data lines with the same count
fn canon(lines: Vec<(bool, usize, String)>) -> Vec<String> {
    let mut out = vec![];
    let mut unit: Vec<String> = vec![];
    let mut unit_n = 0usize;
    for (is_data, n, l) in lines {
        if is_data && (unit.is_empty() || unit_n == n) {
            unit_n = n;
            unit.push(l);
            continue;
        }
        unit.sort();
        out.append(&mut unit);
        if is_data {
            unit_n = n;
            unit.push(l);
        } else {
            out.push(l);
        }
    }
    unit.sort();
    out.append(&mut unit);
    out
}

fn exec(c: &Case) -> Vec<String> {
    let n: usize = c.header[1].parse().unwrap();
    let s: usize = c.header[2].parse().unwrap();
    let exact = c.header[3] == "1";
    let script: Vec<StreamElement<Val>> =
        c.ops.iter().filter(|op| op[0] == "e").map(|op| parse_elem(&op[1]).expect("bad elem")).collect();
    let consumed = Arc::new(AtomicUsize::new(0));
    let counter = consumed.clone();
    let ctx = StreamContext::new_local();
    let st = ctx
        .stream(ScriptOp::new(script))
        .key_by(move |v: &Val| {
            counter.fetch_add(1, Ordering::SeqCst);
            key_of(v)
        })
        .window(CountWindow::new(n, s, exact))
        .fold(Vec::new(), |v: &mut Vec<Val>, x: Val| v.push(x));
    let mut op = take_ops_keyed(st);
    let me = Coord::new(0, 0, 0);
    let mut net = FakeNet::new(me);
    net.with_metadata(vec![me], 0, BatchMode::fixed(1), |m| op.setup(m));
    let mut lines = vec![];
    loop {
        let e = op.next();
        let cnt = consumed.load(Ordering::SeqCst);
        let term = matches!(e, StreamElement::Terminate);
        let is_data = matches!(e, StreamElement::Item(_) | StreamElement::Timestamped(_, _));
        let e = e.map(|(k, v)| Val::pair(k, Val::List(v)));
        lines.push((is_data, cnt, format!("{cnt} {}", fmt_elem(&e))));
        if term {
            break;
        }
    }
    canon(lines)
}

fn main() {
    run_main("cwinop", gen, exec);
}
