//! C01: whole-engine end-to-end runs of random pipelines (see `nvh::e2e`).
//! header: `e2e <config> <batchmode>`; ops: `n <id> <kind> …` (the job), optional `tag <t>`;
//! outputs: `sink <id> <sorted list>` per sink | `panic:<class>` | `blocked` | `infra`.
use nvh::e2e::*;

fn main() {
    let opts = GenOpts { limited_forward: std::env::var("NVH_E2E_NO_LIMFWD").is_err(), ..GenOpts::default() };
    run_main_par(move |seed, n| gen_cases(seed, n, opts), exec_case, 6);
}
