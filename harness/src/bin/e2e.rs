//! C01: whole-engine end-to-end runs of random pipelines (see `nvh::e2e`).
//! header: `e2e <config> <batchmode>`; ops: `n <id> <kind> …` (the job);
//! outputs: `sink <id> <sorted list>` per sink | `panic:<class>` | `blocked` | `infra`.
//! `--kbin`: every job contains the keyed-binary gadget (two keyed streams built by possibly
//! different co-partitioning code paths, combined by a forward keyed join / merge) — used by C03.
use nvh::e2e::*;

fn main() {
    run_main_par(
        |seed, n, extra| {
            let opts = GenOpts {
                limited_forward: std::env::var("NVH_E2E_NO_LIMFWD").is_err(),
                kbin_every: if extra.iter().any(|a| a == "--kbin") { 1 } else { GenOpts::default().kbin_every },
                ..GenOpts::default()
            };
            gen_cases(seed, n, opts)
        },
        exec_case,
        6,
    );
}
