//! C14, engine level (hook-free): `ChannelSource → group_by(key) → window(SessionWindow | ProcessingTimeWindow)
//! → fold(Vec::new(), push) → collect_channel()` on the real engine (`RuntimeConfig::local(p)`), REAL clock,
//! real pauses between the sends. Which windows come out depends on scheduling and batching, so there is
//! no model to diff against: the driver checks conservation per key only (tag `nodiff`).
//!
//! header: `tweng <s|p> <gap or size ns> <slide ns> <p> <batch: s|a|f>`; ops: `s <pause_ns> (<key>,<id>)`
//! (pause, then send). output lines: `I:(<key>,[..])` per collected result in arrival order, or `hang`.
use std::sync::mpsc;
use std::time::{Duration, Instant};

use nvh::*;
use renoir::operator::source::ChannelSource;
use renoir::operator::window::{ProcessingTimeWindow, SessionWindow};
use renoir::{BatchMode, RuntimeConfig, StreamContext};

const US: u64 = 1_000;

fn key_of(v: &Val) -> Val {
    match v {
        Val::Tup(l) if !l.is_empty() => l[0].clone(),
        v => v.clone(),
    }
}

fn gen(rng: &mut Rng, i: usize) -> Case {
    let unit = *rng.pick(&[100 * US, 300 * US, 1000 * US]);
    let a = rng.range(1, 3) as u64;
    let (kind, size, slide) = match rng.below(3) {
        0 => ("s", a * unit, a * unit),
        1 => ("p", a * unit, a * unit),
        _ => ("p", a * unit, rng.range(1, (a as i64 - 1).max(1)) as u64 * unit),
    };
    let p = rng.range(1, 3);
    let batch = *rng.pick(&["s", "a", "f"]);
    let mut c = Case::new(&["tweng", kind, &size.to_string(), &slide.to_string(), &p.to_string(), batch]);
    let nkeys = rng.range(1, 4);
    let mut next = (i as i64 % 1000) * 100;
    for _ in 0..rng.range(0, 24) {
        next += 1;
        let pause = match rng.below(8) {
            0 | 1 | 2 | 3 => 0,
            4 => size / 2,
            5 => size + size / 4,
            6 => slide,
            _ => size * 2 + rng.below(size),
        };
        let v = Val::pair(Val::Int(rng.range(0, nkeys - 1)), Val::Int(next));
        c.ops(vec!["s".into(), pause.to_string(), v.to_string()]);
    }
    c
}

fn exec(c: &Case) -> Vec<String> {
    let kind = c.header[1].clone();
    let size = Duration::from_nanos(c.header[2].parse().unwrap());
    let slide = Duration::from_nanos(c.header[3].parse().unwrap());
    let p: u64 = c.header[4].parse().unwrap();
    let bm = match c.header[5].as_str() {
        "s" => BatchMode::single(),
        "a" => BatchMode::adaptive(8, Duration::from_micros(200)),
        _ => BatchMode::fixed(4),
    };
    let (tx, source) = ChannelSource::<Val>::new(4096);
    let (rx_tx, rx_rx) = mpsc::channel();
    let (done_tx, done_rx) = mpsc::channel::<()>();
    std::thread::Builder::new()
        .name("engine".into())
        .spawn(move || {
            let ctx = StreamContext::new(RuntimeConfig::local(p).unwrap());
            let keyed = ctx.stream(source).batch_mode(bm).group_by(key_of);
            let fold = |v: &mut Vec<Val>, x: Val| v.push(x);
            let rx = if kind == "s" {
                keyed.window(SessionWindow::new(size)).fold(Vec::new(), fold).collect_channel()
            } else {
                keyed.window(ProcessingTimeWindow::sliding(size, slide)).fold(Vec::new(), fold).collect_channel()
            };
            rx_tx.send(rx).unwrap();
            ctx.execute_blocking();
            let _ = done_tx.send(());
        })
        .unwrap();
    let rx = rx_rx.recv().unwrap();
    for op in &c.ops {
        if op[0] != "s" || op.len() != 3 {
            continue;
        }
        let (Ok(pause), Some(v)) = (op[1].parse::<u64>(), Val::parse(&op[2])) else { continue };
        let t0 = Instant::now();
        let d = Duration::from_nanos(pause);
        if pause >= 200 * US {
            std::thread::sleep(d);
        }
        while t0.elapsed() < d {
            std::hint::spin_loop();
        }
        tx.send(v).unwrap();
    }
    drop(tx);
    let mut out = vec![];
    loop {
        match rx.recv_timeout(Duration::from_secs(20 * nvh::load_factor() as u64)) {
            Ok((k, v)) => out.push(format!("I:{}", Val::pair(k, Val::List(v)))),
            Err(e) if e.to_string().contains("timed out") => return vec!["hang".into()],
            Err(_) => break, // disconnected: the sink is gone
        }
    }
    if done_rx.recv_timeout(Duration::from_secs(20 * nvh::load_factor() as u64)).is_err() {
        return vec!["hang".into()];
    }
    out
}

fn main() {
    run_main("tweng", gen, exec);
}
