//! C18 (component level, event granularity): the REAL `Start` (receive timeout) + the REAL `End` with
//! `k ≥ 2` downstream replicas on a `FakeNet`, `BatchMode::adaptive(n, 60 ms)`, `GroupBy` routing
//! (payload `(dest, value)`, the keyer returns `dest`).
//!
//! header: `tblock <n> <k> <upstreams>`
//! ops (time is part of the script; "fast" ops take microseconds):
//!   `b <u> <elem>…`   upstream `u` sends a batch; the block is pulled once per element          (fast)
//!   `pb <u> <elem>…`  paced batch: the block is pulled FIRST and sits in `recv_timeout`; the batch is sent
//!                     24 ms later by a helper thread (< max_delay: the timeout does not fire)       (+24 ms)
//!   `sleep`           96 ms pass without the block being pulled (every batcher's timer elapses)      (+96 ms)
//!   `w`               the block is pulled with nothing queued: `recv_timeout(60 ms)` expires → the fake
//!                     `FlushBatch` → `End` flushes; then 24 more ms pass                              (+84 ms)
//!                     (if the block already timed out since the last batch the pull would block for
//!                      ever: answered `idle` without pulling)
//! outputs: `<op#> <dest> <elem>…` per batch a downstream replica received during the op (by dest, FIFO),
//!          `<op#> FB` when the pull returned the timeout `FlushBatch`, `<op#> idle`.
//! A case whose fast segments were disturbed by the machine (any fast segment > 4 ms, or more than 8 ms cumulative drift against the script) is re-run (≤ 6 times).
use std::time::{Duration, Instant};

use nvh::*;
use renoir::operator::{Operator, StreamElement};
use renoir::verif::ops::{self, Strategy};
use renoir::verif::{Coord, FakeNet, FakeReceiver, FakeSender};
use renoir::BatchMode;

const DELTA_MS: u64 = 60;
const PACE_MS: u64 = 24;
const SLEEP_MS: u64 = 96;
/// tolerated cumulative drift of real time against scripted time between two flush-relevant points
const DRIFT_MS: u64 = 8;

fn dest_of(v: &Val) -> u64 {
    match v {
        Val::Tup(l) => l[0].int() as u64,
        v => v.int() as u64,
    }
}

fn gen(rng: &mut Rng, i: usize) -> Case {
    let n = rng.range(2, 5);
    let k = rng.range(2, 3);
    let ups = rng.range(1, 2);
    let mut c = Case::new(&["tblock", &n.to_string(), &k.to_string(), &ups.to_string()]);
    let mut v = (i as i64 % 1000) * 100;
    let mut batch = |rng: &mut Rng, dests: &[i64], len: i64| -> Vec<String> {
        (0..len)
            .map(|_| {
                v += 1;
                format!("I:({},{})", rng.pick(dests), v)
            })
            .collect()
    };
    let all: Vec<i64> = (0..k).collect();
    if i % 5 == 3 {
        // finding F12, deterministic: x1 → A flushed at once (timer elapsed), x2 → A buffered, then a paced
        // trickle to the other destinations: A's batcher is never flushed although 24 ms·len ≫ 60 ms pass
        let a = rng.range(0, k - 1);
        let others: Vec<i64> = all.iter().copied().filter(|d| *d != a).collect();
        c.op(&["sleep"]);
        let mut w = vec!["b".to_string(), "0".to_string()];
        w.extend(batch(rng, &[a], 1));
        c.ops(w);
        let mut w = vec!["b".to_string(), "0".to_string()];
        w.extend(batch(rng, &[a], 1));
        c.ops(w);
        for _ in 0..rng.range(6, 9) {
            let mut w = vec!["pb".to_string(), rng.range(0, ups - 1).to_string()];
            w.extend(batch(rng, &others, 1));
            c.ops(w);
        }
        c.op(&["w"]);
        return c;
    }
    let mut time_ops = 0;
    for _ in 0..rng.range(2, 12) {
        match rng.below(10) {
            0..=5 => {
                let mut w = vec!["b".to_string(), rng.range(0, ups - 1).to_string()];
                let len = rng.range(1, 2 * n);
                w.extend(batch(rng, &all, len));
                c.ops(w);
            }
            6 | 7 if time_ops < 5 => {
                time_ops += 1;
                let mut w = vec!["pb".to_string(), rng.range(0, ups - 1).to_string()];
                let len = rng.range(1, n);
                w.extend(batch(rng, &all, len));
                c.ops(w);
            }
            8 if time_ops < 5 => {
                time_ops += 2;
                c.op(&["sleep"]);
            }
            _ if time_ops < 5 => {
                time_ops += 2;
                c.op(&["w"]);
            }
            _ => {}
        }
    }
    if rng.chance(1, 2) {
        c.op(&["w"]);
    }
    c
}

fn drain(i: usize, rxs: &[FakeReceiver<Val>], out: &mut Vec<String>) {
    for (d, rx) in rxs.iter().enumerate() {
        while let Some((_, batch)) = rx.try_recv() {
            let mut line = format!("{i} {d}");
            for e in &batch {
                line.push(' ');
                line.push_str(&fmt_elem(e));
            }
            out.push(line);
        }
    }
}

/// one execution; `Err(())` = a fast segment was disturbed (took too long), the run is not valid
fn exec_once(c: &Case) -> Result<Vec<String>, ()> {
    let n: usize = c.header[1].parse().unwrap();
    let k: u64 = c.header[2].parse().unwrap();
    let ups: u64 = c.header[3].parse().unwrap();
    let me = Coord::new(2, 0, 0);
    let mut net = FakeNet::new(me);
    let senders: Vec<FakeSender<Val>> = (0..ups).map(|r| net.add_prev::<Val>(Coord::new(1, 0, r))).collect();
    let rxs: Vec<FakeReceiver<Val>> = (0..k).map(|r| net.add_next::<Val>(Coord::new(3, 0, r), false)).collect();
    let mode = BatchMode::adaptive(n, Duration::from_millis(DELTA_MS));
    let mut op = ops::end(
        ops::start_single::<Val>(1),
        Strategy::GroupBy(dest_of as fn(&Val) -> u64),
        mode,
        None,
        &[],
    );
    net.with_metadata(vec![me], 0, mode, |m| op.setup(m));
    let mut out = vec![];
    let mut idle = false;
    let mut disturbed = false;
    let fast_limit = Duration::from_millis(4);
    let mut seg = Instant::now();
    let start = Instant::now();
    let mut scripted = 0u64;
    for (i, w) in c.ops.iter().enumerate() {
        disturbed |= start.elapsed() > Duration::from_millis(scripted + DRIFT_MS);
        match w[0].as_str() {
            "b" | "pb" => {
                let u: usize = match w.get(1).and_then(|x| x.parse().ok()) {
                    Some(u) if u < senders.len() => u,
                    _ => continue,
                };
                let batch: Vec<StreamElement<Val>> = w[2..].iter().filter_map(|s| parse_elem(s)).collect();
                let m = batch.len();
                if m == 0 {
                    continue;
                }
                if w[0] == "pb" && !idle {
                    disturbed |= seg.elapsed() > fast_limit;
                    let t0 = Instant::now();
                    std::thread::scope(|sc| {
                        let s = &senders[u];
                        sc.spawn(move || {
                            std::thread::sleep(Duration::from_millis(PACE_MS));
                            s.send(batch);
                        });
                        for _ in 0..m {
                            let _ = op.next();
                        }
                    });
                    // the batch must have arrived well before the 60 ms timeout
                    disturbed |= t0.elapsed() > Duration::from_millis(PACE_MS + 4);
                    scripted += PACE_MS;
                    seg = Instant::now();
                } else {
                    if w[0] == "pb" {
                        // an idle block waits without timeout: 24 ms pass, then the batch arrives
                        disturbed |= seg.elapsed() > fast_limit;
                        std::thread::sleep(Duration::from_millis(PACE_MS));
                        scripted += PACE_MS;
                        seg = Instant::now();
                    }
                    senders[u].send(batch);
                    for _ in 0..m {
                        let _ = op.next();
                    }
                }
                idle = false;
                drain(i, &rxs, &mut out);
            }
            "sleep" => {
                disturbed |= seg.elapsed() > fast_limit;
                std::thread::sleep(Duration::from_millis(SLEEP_MS));
                scripted += SLEEP_MS;
                seg = Instant::now();
            }
            "w" => {
                if idle {
                    out.push(format!("{i} idle"));
                    continue;
                }
                disturbed |= seg.elapsed() > fast_limit;
                let t0 = Instant::now();
                let e = op.next();
                disturbed |= t0.elapsed() > Duration::from_millis(DELTA_MS + 6);
                if matches!(e, StreamElement::FlushBatch) {
                    out.push(format!("{i} FB"));
                    idle = true;
                } else {
                    out.push(format!("{i} unexpected"));
                }
                drain(i, &rxs, &mut out);
                std::thread::sleep(Duration::from_millis(PACE_MS));
                scripted += DELTA_MS + PACE_MS;
                seg = Instant::now();
            }
            _ => {}
        }
    }
    disturbed |= seg.elapsed() > fast_limit;
    if disturbed {
        Err(())
    } else {
        Ok(out)
    }
}

fn exec(c: &Case) -> Vec<String> {
    let mut last = vec![];
    for _ in 0..6 {
        match exec_once(c) {
            Ok(o) => return o,
            Err(()) => last = vec!["disturbed".to_string()],
        }
    }
    last
}

fn main() {
    run_main("tblock", gen, exec);
}
