//! C02 (large messages): one batch whose serialized size is far above any internal buffer (tens of MiB)
//! must cross a TCP link (and an in-memory link) like any other: delivered exactly once, in order,
//! content unchanged, and everything sent after it too.
//!
//! header: `bigmsg <hosts> <k> <size> <batch>`: `stream_par_iter` gives replica 0 the elements 0..k, each
//!         mapped to a `Vec<u8>` of `size` bytes (byte j = (i + j) mod 251), `BatchMode::fixed(batch)`, then
//!         `broadcast()` (every element goes to every replica, so the big batches certainly cross every link), then
//!         `(i, len, checksum)` per element, `collect_vec` (each element once per replica: 2 replicas for hosts = 1,
//!         one per host otherwise).
//! ops:    `run`
//! output: `got (i,len,cksum) …` sorted by i | `panic:engine` | `blocked`
use std::sync::atomic::{AtomicU64, Ordering};
use std::time::Duration;

use nvh::*;
use renoir::config::{ConfigBuilder, HostConfig};
use renoir::prelude::*;

static RUN: AtomicU64 = AtomicU64::new(0);

fn gen(rng: &mut Rng, i: usize) -> Case {
    // (hosts, k, size, batch): message size = batch * size
    let shapes: &[(u64, i64, i64, i64)] = &[
        (2, 24, 1 << 20, 20),  // 20 MiB messages, 1 MiB elements
        (2, 3, 24 << 20, 1),   // one 24 MiB element per message
        (1, 24, 1 << 20, 20),  // same through an in-memory link
        (2, 40, 1 << 16, 7),   // small control
        (2, 6, 12 << 20, 6),   // 72 MiB message
        (3, 30, 1 << 20, 18),
    ];
    let (h, k, size, b) = if i < 4 { shapes[i] } else { *rng.pick(shapes) };
    let mut c = Case::new(&["bigmsg", &h.to_string(), &k.to_string(), &size.to_string(), &b.to_string()]);
    c.op(&["run"]);
    c
}

fn cksum(bs: &[u8]) -> u64 {
    let (mut a, mut b) = (1u64, 0u64);
    for x in bs {
        a = (a + *x as u64) % 65521;
        b = (b + a) % 65521;
    }
    b * 65536 + a
}

fn exec(c: &Case) -> Vec<String> {
    if c.ops.is_empty() {
        return vec![];
    }
    let hosts: u64 = c.header[1].parse().unwrap();
    let k: u64 = c.header[2].parse().unwrap();
    let size: usize = c.header[3].parse().unwrap();
    let batch: usize = c.header[4].parse::<usize>().unwrap().max(1);
    let configs: Vec<RuntimeConfig> = if hosts <= 1 {
        vec![RuntimeConfig::local(2).unwrap()]
    } else {
        let run = RUN.fetch_add(1, Ordering::SeqCst);
        let pid = std::process::id() as u64;
        let hs: Vec<HostConfig> = (0..hosts)
            .map(|h| HostConfig {
                address: format!("127.{}.{}.{}", 1 + pid % 250, 1 + (pid / 250 + run + 97) % 250, 1 + h),
                base_port: 21000 + ((pid * 11 + run * 17) % 20000) as u16,
                num_cores: 1,
                ssh: Default::default(),
                perf_path: None,
            })
            .collect();
        (0..hosts)
            .map(|h| ConfigBuilder::new_remote().add_hosts(&hs).host_id(h).build().unwrap())
            .collect()
    };
    let (tx, rx) = std::sync::mpsc::channel();
    let n = configs.len();
    for (h, config) in configs.into_iter().enumerate() {
        let tx = tx.clone();
        std::thread::spawn(move || {
            let r = std::panic::catch_unwind(std::panic::AssertUnwindSafe(|| {
                let env = StreamContext::new(config);
                let out = env
                    .stream_par_iter(move |id: u64, _peers: u64| if id == 0 { 0..k } else { 0..0 })
                    .batch_mode(BatchMode::fixed(batch))
                    .map(move |i| {
                        let v: Vec<u8> = (0..size).map(|j| ((i as usize + j) % 251) as u8).collect();
                        (i, v)
                    })
                    .broadcast()
                    .map(|(i, v)| (i, v.len() as u64, cksum(&v)))
                    .collect_vec();
                env.execute_blocking();
                out.get()
            }));
            let _ = tx.send((h, r.ok()));
        });
    }
    let mut got: Vec<(u64, u64, u64)> = vec![];
    for _ in 0..n {
        match rx.recv_timeout(Duration::from_secs(120 * nvh::load_factor() as u64)) {
            Ok((_, Some(Some(v)))) => got.extend(v),
            Ok((_, Some(None))) => {}
            Ok((_, None)) => return vec!["panic:engine".into()],
            Err(_) => return vec!["blocked".into()],
        }
    }
    got.sort();
    vec![format!("got {}", got.iter().map(|(i, l, c)| format!("({i},{l},{c})")).collect::<Vec<_>>().join(" "))]
}

fn main() {
    run_main("bigmsg", gen, exec);
}
