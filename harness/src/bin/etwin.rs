//! C13 (and C06): the real `EventTimeWindowManager` (after the fixes of F2/F3 in /repo).
//!
//! mode `mgr`: one manager (public API: `EventTimeWindow::sliding/tumbling(..).build(acc)` +
//!   `WindowManager::process`) driven element by element with a collecting accumulator;
//!   output lines `<op index> T:[..]:<end>`.
//! mode `op`: the real keyed `WindowOperator`: `stream(ScriptOp).key_by(first component)
//!   .window(EventTimeWindow).fold(Vec::new(), push)`, chain taken out with `take_ops_keyed`,
//!   pulled until `Terminate`; output lines are the elements in order, data elements between two
//!   control elements sorted (hash-map iteration order of `KeyedWindowManager::windows`).
//!
//! header: `etwin <mode> <size> <slide>`; ops: `e <elem>`; payloads: `mgr` → `<id>`, `op` → `(<key>,<id>)`.
use nvh::*;
use renoir::operator::window::{EventTimeWindow, WindowAccumulator, WindowDescription, WindowManager, WindowResult};
use renoir::operator::{Operator, StreamElement};
use renoir::verif::{take_ops_keyed, Coord, FakeNet, ScriptOp};
use renoir::{BatchMode, StreamContext};

#[derive(Clone, Default)]
struct Collect(Vec<Val>);
impl WindowAccumulator for Collect {
    type In = Val;
    type Out = Val;
    fn process(&mut self, el: Val) {
        self.0.push(el)
    }
    fn output(self) -> Val {
        Val::List(self.0)
    }
}

fn key_of(v: &Val) -> Val {
    match v {
        Val::Tup(l) if !l.is_empty() => l[0].clone(),
        v => v.clone(),
    }
}

/// One iteration worth of ops. `lw` = last watermark (strictly below every later timestamp).
struct Gen<'a> {
    rng: &'a mut Rng,
    c: Case,
    size: i64,
    slide: i64,
    op_mode: bool,
    nkeys: i64,
    next_id: i64,
    lw: Option<i64>,
    cur: i64,
    seen: Vec<i64>,
}

impl Gen<'_> {
    fn payload(&mut self) -> Val {
        self.next_id += 1;
        if self.op_mode {
            let k = self.rng.range(0, self.nkeys - 1);
            Val::pair(Val::Int(k), Val::Int(self.next_id))
        } else {
            Val::Int(self.next_id)
        }
    }
    fn data(&mut self, ts: i64) {
        let v = self.payload();
        self.seen.push(ts);
        self.c.ops(vec!["e".into(), fmt_elem(&StreamElement::Timestamped(v, ts))]);
    }
    fn floor(&self) -> i64 {
        self.lw.map(|w| w + 1).unwrap_or(i64::MIN)
    }
    fn iteration(&mut self, malformed: bool) {
        let steps = match self.rng.below(8) {
            0 => 0,
            1 => self.rng.range(1, 3),
            _ => self.rng.range(3, 22),
        };
        let bound = self.rng.range(0, self.size + 2); // out-of-orderness
        for _ in 0..steps {
            match self.rng.below(20) {
                0..=11 => {
                    // data element: around `cur`, never ≤ last watermark
                    if self.rng.chance(1, 9) {
                        // idle gap longer than several windows
                        self.cur += self.size.max(self.slide) * self.rng.range(2, 5) + self.rng.range(0, self.slide);
                    } else {
                        self.cur += self.rng.range(0, 2);
                    }
                    let mut ts = self.cur + self.rng.range(-bound, bound.min(2));
                    if malformed && self.rng.chance(1, 6) {
                        // late element
                        ts = self.lw.unwrap_or(self.cur) - self.rng.range(0, 3);
                    } else if self.lw.is_some() && self.rng.chance(1, 12) {
                        // boundary `ts == last watermark`: violates the strict input contract (C06)
                        // but is accepted by the code (`assert!(ts >= last_watermark)`); tagged `ts=wm`
                        ts = self.lw.unwrap();
                    } else {
                        ts = ts.max(self.floor());
                    }
                    self.data(ts);
                }
                12..=16 => {
                    // watermark: boundary seeking
                    let lo = self.floor();
                    let pick = if self.seen.is_empty() { self.cur } else { *self.rng.pick(&self.seen) };
                    let mut w = match self.rng.below(7) {
                        0 => pick + self.size,                                   // = end of an anchor slot
                        1 => pick + self.size + self.rng.range(0, 3) * self.slide, // = end of a later slot
                        2 => pick + self.size + 1,
                        3 => pick,                                               // = an element timestamp
                        4 => self.cur - bound,
                        5 => self.cur + self.size * self.rng.range(1, 4),
                        _ => self.cur + self.rng.range(-2, 2),
                    };
                    if self.rng.chance(1, 30) && self.lw.is_some() {
                        w = self.lw.unwrap(); // repeated watermark (not WmSafe: the oracle drops clause (c))
                    } else if w < lo {
                        w = lo + self.rng.range(0, 1);
                    }
                    self.c.ops(vec!["e".into(), format!("W:{w}")]);
                    self.lw = Some(self.lw.map(|l| l.max(w)).unwrap_or(w));
                    self.cur = self.cur.max(w);
                }
                17 => self.c.op(&["e", "FB"]),
                18 if malformed => {
                    let v = self.payload();
                    self.c.ops(vec!["e".into(), fmt_elem(&StreamElement::Item(v))]);
                }
                _ => {
                    // burst on one timestamp
                    let ts = (self.cur + self.rng.range(-bound, 0)).max(self.floor());
                    for _ in 0..self.rng.range(1, 3) {
                        self.data(ts);
                    }
                }
            }
        }
    }
}

fn gen(rng: &mut Rng, i: usize) -> Case {
    let size = rng.range(1, 8);
    let slide = match rng.below(10) {
        0..=3 => size,
        4 => 1,
        5 => {
            let d: Vec<i64> = (1..=size).filter(|d| size % d == 0).collect();
            *rng.pick(&d)
        }
        6..=8 => rng.range(1, size),
        _ => rng.range(size, 9), // slide ≥ size (gaps between windows)
    };
    let op_mode = rng.chance(2, 5);
    let malformed = rng.chance(1, 20);
    let nkeys = rng.range(1, 3);
    let c = Case::new(&["etwin", if op_mode { "op" } else { "mgr" }, &size.to_string(), &slide.to_string()]);
    let start = rng.range(-5, 20);
    let mut g = Gen { rng, c, size, slide, op_mode, nkeys, next_id: (i as i64 % 1000) * 100, lw: None, cur: start, seen: vec![] };
    let iters = g.rng.range(1, 3);
    for _ in 0..iters {
        g.iteration(malformed);
        g.c.op(&["e", "FAR"]);
        if op_mode || (malformed && g.rng.chance(1, 2)) {
            // the source's watermarks restart in every iteration; a single manager driven on its
            // own keeps `last_watermark` (the WindowOperator drops it), so in `mgr` mode time
            // only restarts in the malformed stream
            g.lw = None;
            g.seen.clear();
            if g.rng.chance(1, 2) {
                g.cur = g.rng.range(-5, 20);
            }
        }
    }
    g.c.op(&["e", "TERM"]);
    g.c
}

fn res_elem(r: WindowResult<Val>) -> StreamElement<Val> {
    match r {
        WindowResult::Item(v) => StreamElement::Item(v),
        WindowResult::Timestamped(v, t) => StreamElement::Timestamped(v, t),
    }
}

fn exec_mgr(c: &Case, size: i64, slide: i64) -> Vec<String> {
    let descr = if size == slide { EventTimeWindow::tumbling(size) } else { EventTimeWindow::sliding(size, slide) };
    let mut mgr = descr.build(Collect::default());
    let mut out = vec![];
    let mut idx = 0usize;
    for op in &c.ops {
        if op[0] != "e" {
            continue;
        }
        let e = parse_elem(&op[1]).expect("bad elem");
        for r in mgr.process(e) {
            out.push(format!("{idx} {}", fmt_elem(&res_elem(r))));
        }
        idx += 1;
    }
    out
}

/// Sort the data lines between two control lines.
fn canon(lines: Vec<(bool, String)>) -> Vec<String> {
    let mut out = vec![];
    let mut unit: Vec<String> = vec![];
    for (is_data, l) in lines {
        if is_data {
            unit.push(l);
        } else {
            unit.sort();
            out.append(&mut unit);
            out.push(l);
        }
    }
    unit.sort();
    out.append(&mut unit);
    out
}

fn exec_op(c: &Case, size: i64, slide: i64) -> Vec<String> {
    let script: Vec<StreamElement<Val>> =
        c.ops.iter().filter(|op| op[0] == "e").map(|op| parse_elem(&op[1]).expect("bad elem")).collect();
    let descr = if size == slide { EventTimeWindow::tumbling(size) } else { EventTimeWindow::sliding(size, slide) };
    let ctx = StreamContext::new_local();
    let s = ctx
        .stream(ScriptOp::new(script))
        .key_by(key_of)
        .window(descr)
        .fold(Vec::new(), |v: &mut Vec<Val>, x: Val| v.push(x));
    let mut op = take_ops_keyed(s);
    let me = Coord::new(0, 0, 0);
    let mut net = FakeNet::new(me);
    net.with_metadata(vec![me], 0, BatchMode::fixed(1), |m| op.setup(m));
    let mut lines = vec![];
    loop {
        let e = op.next();
        let term = matches!(e, StreamElement::Terminate);
        let is_data = matches!(e, StreamElement::Item(_) | StreamElement::Timestamped(_, _));
        let e = e.map(|(k, v)| Val::pair(k, Val::List(v)));
        lines.push((is_data, fmt_elem(&e)));
        if term {
            break;
        }
    }
    canon(lines)
}

fn exec(c: &Case) -> Vec<String> {
    let size: i64 = c.header[2].parse().unwrap();
    let slide: i64 = c.header[3].parse().unwrap();
    if c.header[1] == "op" {
        exec_op(c, size, slide)
    } else {
        exec_mgr(c, size, slide)
    }
}

fn main() {
    run_main("etwin", gen, exec);
}
