//! C18 (component level): the REAL `ChannelSource::<Val>::new(cap)` driven call by call.
//!
//! header: `chansrc <cap>`; ops: `send <v>` (tx.try_send), `close` (drop tx), `next` (source.next() on a
//! helper thread; if it does not return within the watchdog the answer is `blocked` and the call stays
//! pending: a later `send`/`close` wakes it up and reports what it returned as `late <elem>`).
//! Exactly one output line per op.
use std::sync::mpsc;
use std::time::Duration;

use nvh::*;
use renoir::operator::source::ChannelSource;
use renoir::operator::{Operator, StreamElement};

const WATCHDOG: Duration = Duration::from_millis(2000);

fn gen(rng: &mut Rng, i: usize) -> Case {
    let cap = match rng.below(10) {
        0 => 0,
        1 => 1,
        2 => 2,
        _ => rng.range(3, 12),
    } as usize;
    let mut c = Case::new(&["chansrc", &cap.to_string()]);
    // a few deliberately blocking cases: model and code must agree on `blocked`
    let blocking = i % 50 == 7;
    let mut blocks_left = if blocking { 1 + rng.below(2) } else { 0 };
    let mut v = (i as i64 % 1000) * 100;
    // generator-side mirror of "would this `next` block": queue length, open, last returned was FB
    let mut qlen = 0usize;
    let mut open = true;
    let mut last_fb = false;
    let mut pending = false;
    let mut done = false; // FAR returned
    let len = rng.range(3, 40);
    for _ in 0..len {
        match rng.below(10) {
            0..=3 => {
                v += 1;
                c.ops(vec!["send".into(), v.to_string()]);
                if open {
                    if pending {
                        pending = false;
                        last_fb = false;
                    } else if qlen < cap {
                        qlen += 1;
                    }
                }
            }
            4 if rng.chance(1, 4) => {
                c.op(&["close"]);
                open = false;
                if pending {
                    pending = false;
                    done = true;
                }
            }
            _ => {
                // next
                let would_block = !pending && !done && qlen == 0 && open && last_fb;
                if would_block {
                    if blocks_left == 0 {
                        continue;
                    }
                    blocks_left -= 1;
                    pending = true;
                    c.op(&["next"]);
                    continue;
                }
                c.op(&["next"]);
                if pending || done {
                    continue;
                }
                if qlen > 0 {
                    qlen -= 1;
                    last_fb = false;
                } else if !open {
                    done = true;
                } else {
                    last_fb = true;
                }
            }
        }
    }
    if rng.chance(2, 3) {
        if open {
            c.op(&["close"]);
        }
        for _ in 0..rng.range(1, 4) {
            c.op(&["next"]);
        }
    }
    c
}

enum Cmd {
    Next,
    Quit,
}

fn exec(c: &Case) -> Vec<String> {
    let cap: usize = c.header[1].parse().unwrap();
    let (tx, source) = ChannelSource::<Val>::new(cap);
    let mut tx = Some(tx);
    let (cmd_tx, cmd_rx) = mpsc::channel::<Cmd>();
    let (res_tx, res_rx) = mpsc::channel::<StreamElement<Val>>();
    let worker = std::thread::spawn(move || {
        let mut source = source;
        while let Ok(Cmd::Next) = cmd_rx.recv() {
            let e = source.next();
            if res_tx.send(e).is_err() {
                break;
            }
        }
    });
    let mut pending = false;
    let mut out = vec![];
    let late = |res_rx: &mpsc::Receiver<StreamElement<Val>>| match res_rx.recv_timeout(WATCHDOG) {
        Ok(e) => format!("late {}", fmt_elem(&e)),
        Err(_) => "stuck".to_string(),
    };
    for op in &c.ops {
        match op[0].as_str() {
            "send" => {
                let v = Val::parse(&op[1]).expect("bad value");
                match &tx {
                    None => out.push("closed".into()),
                    Some(t) => match t.try_send(v) {
                        Ok(()) => {
                            if pending {
                                let l = late(&res_rx);
                                pending = l == "stuck";
                                out.push(l);
                            } else {
                                out.push("sent".into());
                            }
                        }
                        // flume is not a direct dependency: classify by the Display text
                        Err(e) if e.to_string().contains("full") => out.push("full".into()),
                        Err(_) => out.push("disconnected".into()),
                    },
                }
            }
            "close" => {
                tx = None;
                if pending {
                    let l = late(&res_rx);
                    pending = l == "stuck";
                    out.push(l);
                } else {
                    out.push("closed".into());
                }
            }
            "next" => {
                if pending {
                    out.push("pending".into());
                    continue;
                }
                cmd_tx.send(Cmd::Next).unwrap();
                match res_rx.recv_timeout(WATCHDOG) {
                    Ok(e) => out.push(fmt_elem(&e)),
                    Err(_) => {
                        pending = true;
                        out.push("blocked".into());
                    }
                }
            }
            _ => out.push("bad".into()),
        }
    }
    // release the worker: a sleeping recv() returns on disconnect
    drop(tx);
    let _ = cmd_tx.send(Cmd::Quit);
    if pending {
        let _ = res_rx.recv_timeout(WATCHDOG);
    }
    let _ = worker.join();
    out
}

fn main() {
    run_main("chansrc", gen, exec);
}
