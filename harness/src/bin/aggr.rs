//! C07, whole engine: EVERY aggregation form of `operator/mod.rs` through the public API on the
//! real engine (threads, batching, channels / loopback TCP), at parallelism 1-4 locally and on two
//! in-process hosts, plain and inside `replay` / `iterate`, with and without timestamps.
//!
//! header: `aggr <form> <cfg> <bm> <ts> <loop>`
//!   form: fold fold_assoc reduce reduce_assoc gb_fold gb_reduce group_by_fold group_by_reduce
//!         group_by_sum group_by_count group_by_avg group_by_min_element group_by_max_element krich
//!   cfg:  L<p> (local, p cores) | R<c0>x<c1> (two hosts)      bm: see `parse_bm`
//!   ts:   0 | 1 (the real `add_timestamps`, no watermarks)     loop: none | replay<R> | iterate<R>
//! ops:  `v <key> <value> <timestamp>` — one input element each, in source order; the source is
//!       `stream_par_iter` over the index range, so replica i of n gets the i-th contiguous slice
//!       (fewer elements than replicas = empty partitions).
//! outputs (sorted): `r <round> <key> <value> <ts|N>` one per result (`round` = 0 outside loops, the
//!       0-based round inside; key 0 for the global forms), for `iterate` also `f <key> <value> <ts|N>`
//!       (the stream leaving the loop), for krich `r 0 <key> 1 <running count> N` and
//!       `r 0 <key> 2 <value> <ts|N>`.
//! The result's timestamp is observed with `rich_map_custom` right after the aggregation.
use std::collections::HashMap;
use std::sync::mpsc;
use std::sync::Arc;
use std::time::Duration;

use nvh::*;
use renoir::config::{ConfigBuilder, HostConfig};
use renoir::operator::StreamElement;
use renoir::prelude::*;

type E = (i64, i64, i64);
type St = (i64, Vec<Vec<i64>>);
type Getter = Box<dyn FnOnce() -> Option<Vec<Vec<i64>>> + Send>;
const NOTS: i64 = i64::MIN;

const FORMS: &[&str] = &[
    "fold",
    "fold_assoc",
    "reduce",
    "reduce_assoc",
    "gb_fold",
    "gb_reduce",
    "group_by_fold",
    "group_by_reduce",
    "group_by_sum",
    "group_by_count",
    "group_by_avg",
    "group_by_min_element",
    "group_by_max_element",
    "krich",
];
const BMS: &[&str] = &["default", "single", "fixed1", "fixed3", "fixed1024", "adaptive"];

fn parse_bm(s: &str) -> BatchMode {
    match s {
        "single" => BatchMode::single(),
        "fixed1" => BatchMode::fixed(1),
        "fixed3" => BatchMode::fixed(3),
        "fixed1024" => BatchMode::fixed(1024),
        "adaptive" => BatchMode::adaptive(64, Duration::from_millis(5)),
        _ => BatchMode::default(),
    }
}

/// stamp a data element with its timestamp as data (the element keeps its kind)
fn stamp<T>(e: StreamElement<T>) -> StreamElement<(T, i64)> {
    match e {
        StreamElement::Item(v) => StreamElement::Item((v, NOTS)),
        StreamElement::Timestamped(v, t) => StreamElement::Timestamped((v, t), t),
        StreamElement::Watermark(w) => StreamElement::Watermark(w),
        StreamElement::FlushBatch => StreamElement::FlushBatch,
        StreamElement::FlushAndRestart => StreamElement::FlushAndRestart,
        StreamElement::Terminate => StreamElement::Terminate,
    }
}

fn untimestamp<T>(e: StreamElement<T>) -> StreamElement<T> {
    match e {
        StreamElement::Timestamped(v, _) => StreamElement::Item(v),
        o => o,
    }
}

/// global forms: `Stream<i64>` -> `Stream<E>` = (0, value, stamp)
macro_rules! glob {
    ($x:expr) => {
        $x.rich_map_custom(|mut g| stamp(g.next())).map(|(v, t): (i64, i64)| (0i64, v, t))
    };
}
/// keyed forms: `(Keyed)Stream<(i64, i64)>` -> `Stream<E>` = (key, value, stamp)
macro_rules! keyed {
    ($x:expr) => {
        $x.rich_map_custom(|mut g| stamp(g.next())).map(|((k, v), t): ((i64, i64), i64)| (k, v, t))
    };
}

/// the aggregation `form` applied to a stream `s` of `E` = (key, value, _)
macro_rules! agg {
    (fold, $s:expr, $cnt:expr) => {
        glob!($s.map(|e: E| e.1).fold(0i64, |a, x| *a += x))
    };
    (fold_assoc, $s:expr, $cnt:expr) => {
        glob!($s.map(|e: E| e.1).fold_assoc(0i64, |a, x| *a += x, |a, b| *a += b))
    };
    (reduce, $s:expr, $cnt:expr) => {
        glob!($s.map(|e: E| e.1).reduce(|a, b| a + b))
    };
    (reduce_assoc, $s:expr, $cnt:expr) => {
        glob!($s.map(|e: E| e.1).reduce_assoc(|a, b| a.max(b)))
    };
    (gb_fold, $s:expr, $cnt:expr) => {
        keyed!($s.group_by(|e: &E| e.0).fold(0i64, |a, e: E| *a += e.1))
    };
    (gb_reduce, $s:expr, $cnt:expr) => {
        keyed!($s.group_by(|e: &E| e.0).map(|(_, e): (&i64, E)| e.1).reduce(|a, b| *a = (*a).max(b)))
    };
    (group_by_fold, $s:expr, $cnt:expr) => {
        keyed!($s.group_by_fold(|e: &E| e.0, 0i64, |a, e: E| *a += e.1, |a, b| *a += b))
    };
    (group_by_reduce, $s:expr, $cnt:expr) => {
        keyed!($s
            .map(|e: E| (e.0, e.1))
            .group_by_reduce(|e: &(i64, i64)| e.0, |a, b| a.1 += b.1)
            .map(|(_, e): (&i64, (i64, i64))| e.1))
    };
    (group_by_sum, $s:expr, $cnt:expr) => {
        keyed!($s.group_by_sum(|e: &E| e.0, |e: E| e.1))
    };
    (group_by_count, $s:expr, $cnt:expr) => {
        keyed!($s.group_by_count(|e: &E| e.0).map(|(_, c): (&i64, usize)| c as i64))
    };
    (group_by_avg, $s:expr, $cnt:expr) => {{
        // the f64 average is brought back to an integer with the (harness-known) number of
        // elements of the key: round(avg * n_k) must be the key's sum
        let cnt: Arc<HashMap<i64, i64>> = $cnt;
        keyed!($s
            .group_by_avg(|e: &E| e.0, |e: &E| e.1 as f64)
            .map(move |(k, a): (&i64, f64)| (a * (*cnt.get(k).unwrap_or(&1)) as f64).round() as i64))
    }};
    (group_by_min_element, $s:expr, $cnt:expr) => {
        keyed!($s
            .map(|e: E| (e.0, e.1))
            .group_by_min_element(|e: &(i64, i64)| e.0, |e: &(i64, i64)| e.1)
            .map(|(_, e): (&i64, (i64, i64))| e.1))
    };
    (group_by_max_element, $s:expr, $cnt:expr) => {
        keyed!($s
            .map(|e: E| (e.0, e.1))
            .group_by_max_element(|e: &(i64, i64)| e.0, |e: &(i64, i64)| e.1)
            .map(|(_, e): (&i64, (i64, i64))| e.1))
    };
}

/// forms usable as a loop body (everything whose result fits the element type `E`)
macro_rules! dispatch {
    ($form:expr, $m:ident) => {
        match $form {
            "fold" => $m!(fold),
            "fold_assoc" => $m!(fold_assoc),
            "reduce" => $m!(reduce),
            "reduce_assoc" => $m!(reduce_assoc),
            "gb_fold" => $m!(gb_fold),
            "gb_reduce" => $m!(gb_reduce),
            "group_by_fold" => $m!(group_by_fold),
            "group_by_reduce" => $m!(group_by_reduce),
            "group_by_sum" => $m!(group_by_sum),
            "group_by_count" => $m!(group_by_count),
            "group_by_avg" => $m!(group_by_avg),
            "group_by_min_element" => $m!(group_by_min_element),
            "group_by_max_element" => $m!(group_by_max_element),
            f => panic!("unknown form {f}"),
        }
    };
}

/// the real `add_timestamps` (timestamp = third component, no watermarks); for the plain variant
/// the stamps are removed again so that both variants have one type
macro_rules! pre {
    ($s:expr, $ts:expr) => {{
        let keep: bool = $ts;
        $s.drop_timestamps()
            .add_timestamps(|e: &E| e.2, |_, _| None)
            .rich_map_custom(move |mut g| {
                let e = g.next();
                if keep {
                    e
                } else {
                    untimestamp(e)
                }
            })
    }};
}

fn e2v(e: E) -> Vec<i64> {
    vec![e.0, e.1, e.2]
}

struct Job {
    form: String,
    ts: bool,
    lp: String,
    rounds: usize,
    bm: BatchMode,
    data: Arc<Vec<E>>,
    cnt: Arc<HashMap<i64, i64>>,
}

/// build the pipeline on `ctx`; one getter per sink, each result already flattened to
/// `[tag, round, key, value.., stamp]` (tag 0 = `r` line, 1 = `f` line)
fn build(ctx: &StreamContext, j: &Job) -> Vec<Getter> {
    let n = j.data.len() as i64;
    let data = j.data.clone();
    let src = ctx
        .stream_par_iter(0..n)
        .batch_mode(j.bm)
        .map(move |i| data[i as usize]);
    let ts = j.ts;
    let cnt = j.cnt.clone();
    let rounds = j.rounds;
    let form = j.form.as_str();
    if form == "krich" {
        // keyed rich_map state: a running count per key, and the element itself
        let o = pre!(src, ts)
            .group_by(|e: &E| e.0)
            .rich_map({
                let mut c = 0i64;
                move |(_k, e): (&i64, E)| {
                    c += 1;
                    (c, e.1)
                }
            })
            .rich_map_custom(|mut g| stamp(g.next()))
            .flat_map(|((k, (c, x)), t): ((i64, (i64, i64)), i64)| {
                vec![vec![0, 0, k, 1, c, NOTS], vec![0, 0, k, 2, x, t]]
            })
            .collect_vec();
        return vec![Box::new(move || o.get())];
    }
    match j.lp.as_str() {
        "none" => {
            macro_rules! run_none {
                ($f:ident) => {{
                    let o = agg!($f, pre!(src, ts), cnt.clone())
                        .map(|e: E| vec![0, 0, e.0, e.1, e.2])
                        .collect_vec();
                    vec![Box::new(move || o.get()) as Getter]
                }};
            }
            dispatch!(form, run_none)
        }
        "replay" => {
            macro_rules! run_replay {
                ($f:ident) => {{
                    let o = src
                        .replay(
                            rounds,
                            (0i64, Vec::<Vec<i64>>::new()),
                            move |s, state| {
                                // the values of round r are shifted by r: every round has its own result
                                agg!(
                                    $f,
                                    pre!(s.map(move |e: E| (e.0, e.1 + state.get().0, e.2)), ts),
                                    cnt.clone()
                                )
                                // the stamp is data now; a Timestamped element must not reach the end of a
                                // loop body (IterationEnd, iteration_end.rs:120, is `unreachable!()` on it)
                                .drop_timestamps()
                            },
                            |delta: &mut Vec<Vec<i64>>, e: E| delta.push(e2v(e)),
                            |st: &mut St, delta: Vec<Vec<i64>>| {
                                for mut d in delta {
                                    d.insert(0, st.0);
                                    d.insert(0, 0);
                                    st.1.push(d);
                                }
                            },
                            |st: &mut St| {
                                st.0 += 1;
                                true
                            },
                        )
                        .collect_vec();
                    vec![Box::new(move || o.get().map(states)) as Getter]
                }};
            }
            dispatch!(form, run_replay)
        }
        "iterate" => {
            macro_rules! run_iterate {
                ($f:ident) => {{
                    let (state, res) = src.iterate(
                        rounds,
                        (0i64, Vec::<Vec<i64>>::new()),
                        move |s, _state| {
                            // the results (key, value, stamp) are the input of the next round
                            agg!($f, pre!(s, ts), cnt.clone())
                                .map(|e: E| (e.0, e.1, if e.2 == NOTS { 0 } else { e.2 }))
                                .drop_timestamps()
                                // back to every replica of the loop (the global forms end on one replica)
                                .shuffle()
                        },
                        |delta: &mut Vec<Vec<i64>>, e: E| delta.push(e2v(e)),
                        |st: &mut St, delta: Vec<Vec<i64>>| {
                            for mut d in delta {
                                d.insert(0, st.0);
                                d.insert(0, 0);
                                st.1.push(d);
                            }
                        },
                        |st: &mut St| {
                            st.0 += 1;
                            true
                        },
                    );
                    let o1 = state.collect_vec();
                    let o2 = res.map(|e: E| vec![1, 0, e.0, e.1, e.2]).collect_vec();
                    vec![
                        Box::new(move || o1.get().map(states)) as Getter,
                        Box::new(move || o2.get()) as Getter,
                    ]
                }};
            }
            dispatch!(form, run_iterate)
        }
        l => panic!("unknown loop kind {l}"),
    }
}

/// the final loop state(s): normally one; identical copies are merged, differing ones all shown
fn states(v: Vec<St>) -> Vec<Vec<i64>> {
    let mut seen: Vec<Vec<Vec<i64>>> = vec![];
    for (_, mut r) in v {
        r.sort();
        if !seen.contains(&r) {
            seen.push(r);
        }
    }
    seen.into_iter().flatten().collect()
}

// ------------------------------------------------------------------------------------------------
// runner (after harness/src/jobs.rs::run_job): one thread per host, loopback TCP, watchdog

fn host_configs(cfg: &str, uniq: u32) -> Vec<RuntimeConfig> {
    if let Some(p) = cfg.strip_prefix('L') {
        return vec![RuntimeConfig::local(p.parse().unwrap()).unwrap()];
    }
    let cores: Vec<u64> = cfg[1..].split('x').map(|c| c.parse().unwrap()).collect();
    let pid = std::process::id();
    let a = 1 + (pid % 250) as u8;
    let b = ((pid / 250).wrapping_add(uniq.wrapping_mul(7)).wrapping_add(101) % 250) as u8;
    let base_port = 23000 + (uniq.wrapping_mul(41) % 18000) as u16;
    let hosts: Vec<HostConfig> = cores
        .iter()
        .enumerate()
        .map(|(h, c)| HostConfig {
            address: format!("127.{a}.{b}.{}", h + 1),
            base_port,
            num_cores: *c,
            ssh: Default::default(),
            perf_path: None,
        })
        .collect();
    (0..cores.len())
        .map(|h| {
            ConfigBuilder::new_remote()
                .add_hosts(&hosts)
                .host_id(h as u64)
                .build()
                .unwrap()
        })
        .collect()
}

enum Outcome {
    Done(Vec<Vec<i64>>),
    Panic(String),
    Timeout,
}

fn run(j: Arc<Job>, cfg: &str, uniq: u32, timeout: Duration) -> Outcome {
    let configs = host_configs(cfg, uniq);
    let nh = configs.len();
    let (tx, rx) = mpsc::channel::<Result<Vec<Vec<i64>>, String>>();
    for (h, config) in configs.into_iter().enumerate() {
        let tx = tx.clone();
        let j = j.clone();
        std::thread::Builder::new()
            .name(format!("host{h}"))
            .spawn(move || {
                let r = std::panic::catch_unwind(std::panic::AssertUnwindSafe(|| {
                    let ctx = StreamContext::new(config);
                    let getters = build(&ctx, &j);
                    ctx.execute_blocking();
                    let mut all = vec![];
                    for g in getters {
                        if let Some(v) = g() {
                            all.extend(v);
                        }
                    }
                    all
                }))
                .map_err(|e| {
                    if let Some(s) = e.downcast_ref::<String>() {
                        s.clone()
                    } else if let Some(s) = e.downcast_ref::<&str>() {
                        s.to_string()
                    } else {
                        "unknown".to_string()
                    }
                });
                let _ = tx.send(r);
            })
            .unwrap();
    }
    drop(tx);
    let deadline = std::time::Instant::now() + timeout;
    let mut all = vec![];
    for _ in 0..nh {
        let left = deadline.saturating_duration_since(std::time::Instant::now());
        match rx.recv_timeout(left) {
            Ok(Ok(v)) => all.extend(v),
            Ok(Err(m)) => return Outcome::Panic(m),
            Err(_) => return Outcome::Timeout,
        }
    }
    Outcome::Done(all)
}

fn is_infra(msg: &str) -> bool {
    let m = msg.to_lowercase();
    m.contains("bind") || m.contains("address") || m.contains("connect") || m.contains("refused")
}

// ------------------------------------------------------------------------------------------------

fn gen(rng: &mut Rng, i: usize) -> Case {
    let rng = &mut Rng::new(rng.next() ^ 0xA66A_0000_0000_0005);
    let form = *rng.pick(FORMS);
    let cfg = match rng.below(10) {
        0 => "L1".to_string(),
        1 | 2 => "L2".to_string(),
        3 => "L3".to_string(),
        4 | 5 => "L4".to_string(),
        6 => "R1x1".to_string(),
        7 => "R2x1".to_string(),
        8 => "R1x2".to_string(),
        _ => "R2x2".to_string(),
    };
    let bm = *rng.pick(BMS);
    let ts = rng.chance(1, 2);
    let lp = if form == "krich" {
        "none".to_string()
    } else {
        match rng.below(6) {
            0 => format!("replay{}", rng.range(2, 3)),
            1 if form != "group_by_avg" => format!("iterate{}", rng.range(2, 3)),
            _ => "none".to_string(),
        }
    };
    let mut c = Case::new(&["aggr", form, &cfg, bm, if ts { "1" } else { "0" }, &lp]);
    // size: empty, fewer elements than replicas (empty partitions), small, larger
    let n = match rng.below(8) {
        0 => 0,
        1 => rng.range(1, 3),
        2 | 3 => rng.range(4, 12),
        _ => rng.range(13, 60),
    };
    // keys: single, skewed, few, more keys than replicas
    let dist = rng.below(4);
    for idx in 0..n {
        let k = match dist {
            0 => 7,
            1 => {
                if rng.chance(4, 5) {
                    1
                } else {
                    rng.range(2, 6)
                }
            }
            2 => rng.range(0, 2),
            _ => rng.range(-15, 15),
        };
        // values are distinct (min/max element have no ties), timestamps out of order with repeats
        let x = rng.range(-5, 20) * 100 + idx;
        let t = rng.range(1, 40);
        c.ops(vec!["v".into(), k.to_string(), x.to_string(), t.to_string()]);
    }
    let _ = i;
    c
}

fn exec(c: &Case) -> Vec<String> {
    if std::env::var("AGGR_DEBUG").is_ok() {
        std::panic::set_hook(Box::new(|i| eprintln!("{i}")));
    }
    let form = c.header[1].clone();
    let cfg = c.header[2].clone();
    let bm = parse_bm(&c.header[3]);
    let ts = c.header[4] == "1";
    let (lp, rounds) = {
        let l = c.header[5].as_str();
        if let Some(r) = l.strip_prefix("replay") {
            ("replay".to_string(), r.parse().unwrap())
        } else if let Some(r) = l.strip_prefix("iterate") {
            ("iterate".to_string(), r.parse().unwrap())
        } else {
            ("none".to_string(), 0usize)
        }
    };
    let data: Vec<E> = c
        .ops
        .iter()
        .filter(|op| op[0] == "v")
        .map(|op| (op[1].parse().unwrap(), op[2].parse().unwrap(), op[3].parse().unwrap()))
        .collect();
    let mut cnt: HashMap<i64, i64> = HashMap::new();
    for e in &data {
        *cnt.entry(e.0).or_insert(0) += 1;
    }
    let job = Arc::new(Job {
        form,
        ts,
        lp,
        rounds,
        bm,
        data: Arc::new(data),
        cnt: Arc::new(cnt),
    });
    // a hash of the case makes the loopback addresses of concurrent cases differ
    let mut uniq = c
        .ops
        .iter()
        .flatten()
        .chain(c.header.iter())
        .fold(17u32, |h, w| w.bytes().fold(h, |h, b| h.wrapping_mul(31).wrapping_add(b as u32)));
    for attempt in 0..3 {
        match run(job.clone(), &cfg, uniq, Duration::from_secs(20 * nvh::load_factor() as u64)) {
            Outcome::Done(mut res) => {
                res.sort();
                return res
                    .into_iter()
                    .map(|v| {
                        let tag = if v[0] == 0 { "r" } else { "f" };
                        let body: Vec<String> = v[if v[0] == 0 { 1 } else { 2 }..]
                            .iter()
                            .map(|x| if *x == NOTS { "N".to_string() } else { x.to_string() })
                            .collect();
                        format!("{tag} {}", body.join(" "))
                    })
                    .collect();
            }
            Outcome::Panic(m) if is_infra(&m) && attempt < 2 => uniq = uniq.wrapping_mul(7).wrapping_add(13),
            Outcome::Panic(m) => {
                if std::env::var("AGGR_DEBUG").is_ok() {
                    eprintln!("panic: {m}");
                }
                return vec![format!("panic:{}", classify_panic(&m))];
            }
            Outcome::Timeout => return vec!["timeout".to_string()],
        }
    }
    vec!["infra".to_string()]
}

fn main() {
    run_main("aggr", gen, exec);
}
