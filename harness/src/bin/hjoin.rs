//! C08: the real join operators (`JoinLocalHash`, `JoinLocalSortMerge`, `JoinKeyedInner`, `JoinKeyedOuter`)
//! built through the public builder API, taken out of the stream and driven through their real
//! `Start<BinaryStartReceiver>` whose two sides are fed by the harness, batch by batch.
//!
//! header: `hjoin <variant> <algo> <ship> <nL> <nR>`; ops: `b L|R <replica> <tok…>`; see lean/Driver/Hjoin.lean
//! for the normalisation rules (duplicated here on purpose: every subset of the op lines is a valid case).
use std::fmt::Debug;
use std::panic::{catch_unwind, AssertUnwindSafe};
use std::sync::mpsc;
use std::time::Duration;

use nvh::*;
use renoir::operator::{ExchangeData, Operator, StreamElement};
use renoir::verif::{block_id, take_ops, take_ops_keyed, Coord, FakeNet, FakeSender, ScriptOp};
use renoir::{BatchMode, RuntimeConfig, StreamContext};

// ------------------------------------------------------------------------------------------------
// generator

fn kv(k: i64, v: i64) -> String {
    format!("I:({k},{v})")
}

fn gen(rng: &mut Rng, i: usize) -> Case {
    let malformed = rng.chance(1, 25);
    // (variant, algo, ship) combinations that exist in the builder API
    let combos: &[(&str, &str, &str)] = &[
        ("inner", "hash", "hash"),
        ("left", "hash", "hash"),
        ("outer", "hash", "hash"),
        ("inner", "hash", "bcast"),
        ("left", "hash", "bcast"),
        ("inner", "sortmerge", "hash"),
        ("left", "sortmerge", "hash"),
        ("outer", "sortmerge", "hash"),
        ("inner", "sortmerge", "bcast"),
        ("left", "sortmerge", "bcast"),
        ("inner", "keyed", "fwd"),
        ("outer", "keyed", "fwd"),
    ];
    // bias towards the hash join (primary model), all combinations stay covered
    let (variant, algo, ship) = if rng.chance(1, 6) {
        combos[rng.below(3) as usize]
    } else {
        *rng.pick(combos)
    };
    let n_l = rng.range(1, 2) as usize;
    let n_r = rng.range(1, 2) as usize;
    let mut c = Case::new(&["hjoin", variant, algo, ship, &n_l.to_string(), &n_r.to_string()]);
    let iters = match rng.below(6) {
        0 | 1 | 2 => 2,
        3 => 3,
        _ => 1,
    };
    let mut next_val = (i as i64 % 50) * 100;
    // keys used by each side in the previous iteration: later iterations are sometimes built to be
    // sensitive to state left over from the previous one (same keys on the other side, one side
    // empty or tiny) — "nothing is carried over into the next iteration"
    let mut prev_keys_l: Vec<i64> = vec![];
    let mut prev_keys_r: Vec<i64> = vec![];
    for it in 0..iters {
        let hunt = it > 0 && rng.chance(1, 2);
        let hunt_keys: Vec<i64> = if hunt {
            if rng.chance(1, 2) { prev_keys_l.clone() } else { prev_keys_r.clone() }
        } else {
            vec![]
        };
        // key universe: small (many duplicates), medium, or disjoint sides
        let nkeys = *rng.pick(&[1i64, 2, 3, 5]);
        let disjoint = rng.chance(1, 10);
        let len_l = match rng.below(6) {
            0 => 0,
            1 => 1,
            _ if hunt => rng.range(0, 1),
            _ => rng.range(0, 7),
        } as usize;
        let len_r = match rng.below(6) {
            0 => 0,
            1 => 1,
            _ => rng.range(0, 7),
        } as usize;
        let mut cur_keys_l: Vec<i64> = vec![];
        let mut cur_keys_r: Vec<i64> = vec![];
        let mut mk = |rng: &mut Rng, left: bool, prev: &mut Vec<String>| -> String {
            // occasionally an exact duplicate element (multiset semantics)
            if !prev.is_empty() && rng.chance(1, 12) {
                return rng.pick(prev).clone();
            }
            let mut k = rng.range(0, nkeys - 1);
            if disjoint && !left {
                k += nkeys;
            }
            if rng.chance(1, 15) {
                k = -k - 1; // negative keys (sort-merge ordering)
            }
            if !hunt_keys.is_empty() && rng.chance(3, 4) {
                k = *rng.pick(&hunt_keys);
            }
            if left {
                cur_keys_l.push(k);
            } else {
                cur_keys_r.push(k);
            }
            next_val += 1;
            let s = if malformed && rng.chance(1, 3) {
                format!("T:({k},{next_val}):{}", rng.range(0, 20))
            } else {
                kv(k, next_val)
            };
            prev.push(s.clone());
            s
        };
        let mut prev_l = vec![];
        let mut prev_r = vec![];
        let mut left: Vec<String> = (0..len_l).map(|_| mk(rng, true, &mut prev_l)).collect();
        let mut right: Vec<String> = (0..len_r).map(|_| mk(rng, false, &mut prev_r)).collect();
        left.reverse();
        right.reverse();
        prev_keys_l = cur_keys_l;
        prev_keys_r = cur_keys_r;
        // per replica: has it sent FAR yet
        let mut far_l = vec![false; n_l];
        let mut far_r = vec![false; n_r];
        // which side tends to go first: 0 = mixed, 1 = left completely first, 2 = right completely first
        let bias = rng.below(4);
        loop {
            let l_open = far_l.iter().any(|f| !f);
            let r_open = far_r.iter().any(|f| !f);
            if !l_open && !r_open {
                break;
            }
            let pick_left = if !l_open {
                false
            } else if !r_open {
                true
            } else {
                match bias {
                    1 => true,
                    2 => false,
                    _ => rng.chance(1, 2),
                }
            };
            let (pending, fars, side) = if pick_left {
                (&mut left, &mut far_l, "L")
            } else {
                (&mut right, &mut far_r, "R")
            };
            let open: Vec<usize> = (0..fars.len()).filter(|r| !fars[*r]).collect();
            let r = *rng.pick(&open);
            let take = if pending.is_empty() { 0 } else { rng.range(0, 3.min(pending.len() as i64)) as usize };
            let mut toks: Vec<String> = (0..take).map(|_| pending.pop().unwrap()).collect();
            // the last open replica of a side may only end once the side's data is exhausted
            let may_end = pending.is_empty() || open.len() > 1;
            if may_end && (take == 0 || rng.chance(1, 2)) {
                toks.push("FAR".into());
                fars[r] = true;
            }
            if toks.is_empty() {
                continue;
            }
            let mut w = vec!["b".to_string(), side.to_string(), r.to_string()];
            w.extend(toks);
            c.ops(w);
        }
    }
    c
}

// ------------------------------------------------------------------------------------------------
// op lines -> batches (normalisation, mirrors Driver/Hjoin.lean `normalise`)

#[derive(Clone, Debug)]
struct Send {
    left: bool,
    replica: usize,
    elems: Vec<StreamElement<Val>>,
}

fn parse_tok(s: &str) -> Option<StreamElement<Val>> {
    match parse_elem(s)? {
        e @ (StreamElement::Item(_) | StreamElement::Timestamped(_, _) | StreamElement::FlushAndRestart) => Some(e),
        _ => None,
    }
}

fn normalise(n_l: usize, n_r: usize, ops: &[Vec<String>]) -> Vec<Send> {
    let mut out = vec![];
    let mut fl = vec![false; n_l];
    let mut fr = vec![false; n_r];
    let mut dirty = false;
    for op in ops {
        if op.len() < 3 || op[0] != "b" || (op[1] != "L" && op[1] != "R") {
            continue;
        }
        let Ok(r) = op[2].parse::<usize>() else { continue };
        let left = op[1] == "L";
        let flags = if left { &mut fl } else { &mut fr };
        if r >= flags.len() || flags[r] {
            continue;
        }
        let mut elems = vec![];
        for t in &op[3..] {
            if let Some(e) = parse_tok(t) {
                let far = matches!(e, StreamElement::FlushAndRestart);
                elems.push(e);
                if far {
                    break;
                }
            }
        }
        if elems.is_empty() {
            continue;
        }
        if matches!(elems.last(), Some(StreamElement::FlushAndRestart)) {
            flags[r] = true;
        }
        out.push(Send { left, replica: r, elems });
        if fl.iter().all(|f| *f) && fr.iter().all(|f| *f) {
            fl = vec![false; n_l];
            fr = vec![false; n_r];
            dirty = false;
        } else {
            dirty = true;
        }
    }
    if dirty {
        for r in 0..n_l {
            if !fl[r] {
                out.push(Send { left: true, replica: r, elems: vec![StreamElement::FlushAndRestart] });
            }
        }
        for r in 0..n_r {
            if !fr[r] {
                out.push(Send { left: false, replica: r, elems: vec![StreamElement::FlushAndRestart] });
            }
        }
    }
    for r in 0..n_l {
        out.push(Send { left: true, replica: r, elems: vec![StreamElement::Terminate] });
    }
    for r in 0..n_r {
        out.push(Send { left: false, replica: r, elems: vec![StreamElement::Terminate] });
    }
    out
}

// ------------------------------------------------------------------------------------------------
// driving the real operator

fn key_of(v: &Val) -> i64 {
    match v {
        Val::Tup(l) if !l.is_empty() => l[0].int(),
        _ => 0,
    }
}

fn val_of(v: &Val) -> Val {
    match v {
        Val::Tup(l) if l.len() == 2 => l[1].clone(),
        v => v.clone(),
    }
}

fn keyed(k: i64, body: Val) -> Val {
    Val::pair(Val::Int(k), body)
}

/// Drive `op` (a chain `Start<BinaryStartReceiver> -> Join.. (-> map)`) with the given batches.
fn drive<Op, T>(
    mut op: Op,
    me_block: u64,
    wrap: fn(Val) -> T,
    conv: impl Fn(Op::Out) -> Val,
    n_l: usize,
    n_r: usize,
    sends: &[Send],
) -> Vec<String>
where
    Op: Operator,
    T: ExchangeData + Debug,
{
    // the two previous blocks, as registered by the binary start
    let st = op.structure();
    let recv = &st.operators[0].receivers;
    assert_eq!(recv.len(), 2, "binary start expected: {st:?}");
    let (lb, rb) = (recv[0].previous_block_id, recv[1].previous_block_id);
    let me = Coord::new(me_block, 0, 0);
    let mut net = FakeNet::new(me);
    let ls: Vec<FakeSender<T>> = (0..n_l).map(|r| net.add_prev::<T>(Coord::new(lb, 0, r as u64))).collect();
    let rs: Vec<FakeSender<T>> = (0..n_r).map(|r| net.add_prev::<T>(Coord::new(rb, 0, r as u64))).collect();
    net.with_metadata(vec![me], 0, BatchMode::adaptive(1000, Duration::from_millis(1)), |m| op.setup(m));

    // which sends carry the FAR that ends a side (=> unspecified order inside that unit)
    let mut out = vec![];
    let mut cnt_l = 0;
    let mut cnt_r = 0;
    let mut terminated = false;
    for (u, sd) in sends.iter().enumerate() {
        let far = matches!(sd.elems.last(), Some(StreamElement::FlushAndRestart));
        let mut end_trigger = false;
        if far {
            if sd.left {
                cnt_l += 1;
                end_trigger = cnt_l == n_l;
            } else {
                cnt_r += 1;
                end_trigger = cnt_r == n_r;
            }
            if cnt_l == n_l && cnt_r == n_r {
                cnt_l = 0;
                cnt_r = 0;
            }
        }
        let batch: Vec<StreamElement<T>> = sd.elems.iter().cloned().map(|e| e.map(wrap)).collect();
        let sender = if sd.left { &ls[sd.replica] } else { &rs[sd.replica] };
        assert!(sender.send(batch), "channel disconnected");
        let mut items = vec![];
        let mut ctrl = vec![];
        loop {
            match op.next() {
                StreamElement::FlushBatch => break,
                StreamElement::Terminate => {
                    ctrl.push("TERM".to_string());
                    terminated = true;
                    break;
                }
                StreamElement::FlushAndRestart => ctrl.push("FAR".to_string()),
                e => items.push(fmt_elem(&e.map(&conv))),
            }
        }
        if end_trigger {
            // items and control elements never interleave inside a unit: the FAR follows the drain
            items.sort();
        }
        for x in items.into_iter().chain(ctrl) {
            out.push(format!("{u} {x}"));
        }
        if terminated {
            break;
        }
    }
    out
}

fn variant_code(v: &str) -> u8 {
    match v {
        "inner" => 0,
        "left" => 1,
        "outer" => 2,
        _ => panic!("bad variant"),
    }
}

fn opt(v: Option<Val>) -> Val {
    Val::opt(v)
}

fn run_case(c: &Case) -> Vec<String> {
    let variant = variant_code(&c.header[1]);
    let algo = c.header[2].as_str();
    let ship = c.header[3].as_str();
    let n_l: usize = c.header[4].parse().unwrap();
    let n_r: usize = c.header[5].parse().unwrap();
    let sends = normalise(n_l, n_r, &c.ops);

    let ctx = StreamContext::new(RuntimeConfig::local(1).unwrap());
    let kf: fn(&Val) -> i64 = key_of;
    let id = |v: Val| v;
    let f_inner = |(k, (l, r)): (i64, (Val, Val))| keyed(k, Val::pair(l, r));
    let f_left = |(k, (l, r)): (i64, (Val, Option<Val>))| keyed(k, Val::pair(l, opt(r)));
    let f_outer = |(k, (l, r)): (i64, (Option<Val>, Option<Val>))| keyed(k, Val::pair(opt(l), opt(r)));

    macro_rules! plain {
        (keyed_stream, $f:expr, $ship:ident, $local:ident, $var:ident) => {{
            let s1 = ctx.stream(ScriptOp::<Val>::new(vec![]));
            let s2 = ctx.stream(ScriptOp::<Val>::new(vec![]));
            let j = s1.join_with(s2, kf, kf).$ship().$local().$var();
            let me = block_id(&j.0);
            drive(take_ops_keyed(j), me, id, $f, n_l, n_r, &sends)
        }};
        (stream, $f:expr, $ship:ident, $local:ident, $var:ident) => {{
            let s1 = ctx.stream(ScriptOp::<Val>::new(vec![]));
            let s2 = ctx.stream(ScriptOp::<Val>::new(vec![]));
            let j = s1.join_with(s2, kf, kf).$ship().$local().$var();
            let me = block_id(&j);
            drive(take_ops(j), me, id, $f, n_l, n_r, &sends)
        }};
    }

    match (algo, ship, variant) {
        ("hash", "hash", 0) => plain!(keyed_stream, f_inner, ship_hash, local_hash, inner),
        ("hash", "hash", 1) => plain!(keyed_stream, f_left, ship_hash, local_hash, left),
        ("hash", "hash", 2) => plain!(keyed_stream, f_outer, ship_hash, local_hash, outer),
        ("hash", "bcast", 0) => plain!(stream, f_inner, ship_broadcast_right, local_hash, inner),
        ("hash", "bcast", 1) => plain!(stream, f_left, ship_broadcast_right, local_hash, left),
        ("sortmerge", "hash", 0) => plain!(keyed_stream, f_inner, ship_hash, local_sort_merge, inner),
        ("sortmerge", "hash", 1) => plain!(keyed_stream, f_left, ship_hash, local_sort_merge, left),
        ("sortmerge", "hash", 2) => plain!(keyed_stream, f_outer, ship_hash, local_sort_merge, outer),
        ("sortmerge", "bcast", 0) => plain!(stream, f_inner, ship_broadcast_right, local_sort_merge, inner),
        ("sortmerge", "bcast", 1) => plain!(stream, f_left, ship_broadcast_right, local_sort_merge, left),
        ("keyed", _, 0) | ("keyed", _, 2) => {
            let wrap: fn(Val) -> (i64, Val) = |v| (key_of(&v), val_of(&v));
            let s1 = ctx.stream(ScriptOp::<(i64, Val)>::new(vec![])).to_keyed();
            let s2 = ctx.stream(ScriptOp::<(i64, Val)>::new(vec![])).to_keyed();
            if variant == 0 {
                let j = s1.join(s2);
                let me = block_id(&j.0);
                drive(take_ops_keyed(j), me, wrap, f_inner, n_l, n_r, &sends)
            } else {
                let j = s1.join_outer(s2);
                let me = block_id(&j.0);
                drive(take_ops_keyed(j), me, wrap, f_outer, n_l, n_r, &sends)
            }
        }
        _ => panic!("combination does not exist in the builder API"),
    }
}

fn exec(c: &Case) -> Vec<String> {
    // helper thread + watchdog: a wrong expectation must not hang the run
    let (tx, rx) = mpsc::channel();
    let case = c.clone();
    std::thread::spawn(move || {
        let res = catch_unwind(AssertUnwindSafe(|| run_case(&case)));
        let _ = tx.send(match res {
            Ok(v) => v,
            Err(e) => {
                let msg = if let Some(s) = e.downcast_ref::<String>() {
                    s.clone()
                } else if let Some(s) = e.downcast_ref::<&str>() {
                    s.to_string()
                } else {
                    "unknown".into()
                };
                vec![format!("panic:{}", classify_panic(&msg))]
            }
        });
    });
    match rx.recv_timeout(Duration::from_secs(5 * nvh::load_factor() as u64)) {
        Ok(v) => v,
        Err(_) => vec!["blocked".into()],
    }
}

fn main() {
    run_main("hjoin", gen, exec);
}
