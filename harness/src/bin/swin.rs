//! C14 (session windows): the real `SessionWindowManager` (public API: `SessionWindow::new(gap).build(acc)`),
//! driven element by element with a collecting accumulator. The wall clock read by the manager is
//! frozen with `renoir::verif::set_clock` before every `process` call at the offset written in the op
//! line (`e <now_ns> <elem>`), so model and implementation see the same arrival timings.
use std::time::Duration;

use nvh::*;
use renoir::operator::window::{SessionWindow, WindowAccumulator, WindowDescription, WindowManager, WindowResult};
use renoir::operator::StreamElement;

#[derive(Clone, Default)]
struct Collect(Vec<Val>);
impl WindowAccumulator for Collect {
    type In = Val;
    type Out = Val;
    fn process(&mut self, el: Val) {
        self.0.push(el)
    }
    fn output(self) -> Val {
        Val::List(self.0)
    }
}

const MS: u64 = 1_000_000;

/// clock advance before the next `process` call, relative to the gap (boundary seeking)
fn delta(rng: &mut Rng, gap: u64) -> u64 {
    match rng.below(14) {
        0 | 1 | 2 => 0,                                   // burst
        3 => 1,                                           // 1 ns
        4 => rng.below(gap + 1),                          // within the gap
        5 => gap - 1,
        6 | 7 => gap,                                     // exactly the gap: no split (`>` is strict)
        8 | 9 => gap + 1,                                 // 1 ns more: split
        10 => gap / 2,
        11 => 2 * gap + rng.below(gap + 1),
        12 => gap * (3 + rng.below(20)) + rng.below(gap), // long pause
        _ => rng.below(2 * gap + 2),
    }
}

fn gen(rng: &mut Rng, i: usize) -> Case {
    if rng.chance(1, 60) {
        // malformed: `SessionWindow::new(0)` asserts
        let mut c = Case::new(&["swin", "0"]);
        c.op(&["e", "0", "I:1"]);
        return c;
    }
    let unit = if rng.chance(1, 5) { 1 } else { MS };
    let gap = unit * rng.range(1, 6) as u64;
    let mut c = Case::new(&["swin", &gap.to_string()]);
    let iters = rng.range(1, 3);
    let mut next = (i as i64) * 1000;
    let mut now: u64 = if rng.chance(1, 2) { 0 } else { rng.below(10 * gap) };
    for _ in 0..iters {
        let len = match rng.below(6) {
            0 => 0,
            1 => 1,
            _ => rng.range(0, 14),
        };
        let timestamped = rng.chance(1, 4);
        for k in 0..len {
            next += 1;
            now += delta(rng, gap);
            let e = if timestamped {
                StreamElement::Timestamped(Val::Int(next), k)
            } else {
                StreamElement::Item(Val::Int(next))
            };
            c.ops(vec!["e".into(), now.to_string(), fmt_elem(&e)]);
            // noise: FlushBatch / Watermark also run the expiry check with their own clock reading
            if rng.chance(1, 8) {
                now += delta(rng, gap);
                c.ops(vec!["e".into(), now.to_string(), "FB".into()]);
            }
            if timestamped && rng.chance(1, 8) {
                now += delta(rng, gap);
                c.ops(vec!["e".into(), now.to_string(), format!("W:{k}")]);
            }
        }
        now += delta(rng, gap);
        c.ops(vec!["e".into(), now.to_string(), "FAR".into()]);
    }
    now += delta(rng, gap);
    c.ops(vec!["e".into(), now.to_string(), "TERM".into()]);
    c
}

fn exec(c: &Case) -> Vec<String> {
    let gap: u64 = c.header[1].parse().unwrap();
    let mut mgr = SessionWindow::new(Duration::from_nanos(gap)).build(Collect::default());
    let mut out = vec![];
    let mut idx = 0usize;
    for op in &c.ops {
        if op[0] != "e" || op.len() != 3 {
            continue;
        }
        // unparsable lines are skipped (as in the driver's `parseOps`)
        let (Ok(now), Some(e)) = (op[1].parse::<u64>(), parse_elem(&op[2])) else { continue };
        renoir::verif::set_clock(Some(Duration::from_nanos(now)));
        if let Some(r) = mgr.process(e) {
            let e = match r {
                WindowResult::Item(v) => StreamElement::Item(v),
                WindowResult::Timestamped(v, t) => StreamElement::Timestamped(v, t),
            };
            out.push(format!("{idx} {}", fmt_elem(&e)));
        }
        idx += 1;
    }
    renoir::verif::set_clock(None);
    out
}

fn main() {
    run_main("swin", gen, exec);
}
