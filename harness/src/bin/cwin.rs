//! C12: the real `CountWindowManager` (public API: `CountWindow::new(..).build(acc)`), driven
//! element by element with a collecting accumulator.
use nvh::*;
use renoir::operator::window::{CountWindow, WindowAccumulator, WindowDescription, WindowManager, WindowResult};
use renoir::operator::StreamElement;

#[derive(Clone, Default)]
struct Collect(Vec<Val>);
impl WindowAccumulator for Collect {
    type In = Val;
    type Out = Val;
    fn process(&mut self, el: Val) {
        self.0.push(el)
    }
    fn output(self) -> Val {
        Val::List(self.0)
    }
}

fn gen(rng: &mut Rng, i: usize) -> Case {
    // boundary-seeking (N, S): S | N, S ∤ N, S = N, S = 1; one case in four with a large window
    // (N up to 40: many open slots for small S) and a slide that is not a small divisor of N
    let large = rng.chance(1, 4);
    let n = if large { rng.range(8, 40) as usize } else { rng.range(1, 9) as usize };
    let s = if large {
        match rng.below(4) {
            0 => rng.range(1, 3) as usize,
            1 => rng.range((n as i64) / 2, n as i64) as usize,
            2 => {
                let nd: Vec<usize> = (2..n).filter(|d| n % d != 0).collect();
                if nd.is_empty() { n } else { *rng.pick(&nd) }
            }
            _ => rng.range(1, n as i64) as usize,
        }
    } else {
        match rng.below(5) {
            0 => 1,
            1 => n,
            2 => {
                let d: Vec<usize> = (1..=n).filter(|d| n % d == 0).collect();
                *rng.pick(&d)
            }
            _ => rng.range(1, n as i64) as usize,
        }
    };
    let exact = rng.chance(1, 2);
    let mut c = Case::new(&["cwin", &n.to_string(), &s.to_string(), if exact { "1" } else { "0" }]);
    let iters = rng.range(1, 3);
    let mut next = (i as i64) * 1000;
    for _ in 0..iters {
        let len = match rng.below(6) {
            0 => 0,
            1 => rng.range(0, n as i64 - 1),
            2 => (n as i64) + (s as i64) * rng.range(0, 4),
            _ => rng.range(0, if large { 100 } else { 40 }),
        }
        .min(120);
        let timestamped = rng.chance(1, 3);
        let mut t = 0i64;
        for _ in 0..len {
            next += 1;
            if timestamped {
                t += rng.range(-2, 5);
                c.ops(vec!["e".into(), fmt_elem(&StreamElement::Timestamped(Val::Int(next), t))]);
            } else {
                c.ops(vec!["e".into(), fmt_elem(&StreamElement::Item(Val::Int(next)))]);
            }
            if rng.chance(1, 12) {
                c.op(&["e", "FB"]);
            }
            if timestamped && rng.chance(1, 10) {
                c.ops(vec!["e".into(), format!("W:{t}")]);
            }
        }
        c.op(&["e", "FAR"]);
    }
    c.op(&["e", "TERM"]);
    c
}

fn exec(c: &Case) -> Vec<String> {
    let n: usize = c.header[1].parse().unwrap();
    let s: usize = c.header[2].parse().unwrap();
    let exact = c.header[3] == "1";
    let mut mgr = CountWindow::new(n, s, exact).build(Collect::default());
    let mut out = vec![];
    let mut idx = 0usize;
    for op in &c.ops {
        if op[0] != "e" {
            continue;
        }
        let e = parse_elem(&op[1]).expect("bad elem");
        for r in mgr.process(e) {
            let e = match r {
                WindowResult::Item(v) => StreamElement::Item(v),
                WindowResult::Timestamped(v, t) => StreamElement::Timestamped(v, t),
            };
            out.push(format!("{idx} {}", fmt_elem(&e)));
        }
        idx += 1;
    }
    out
}

fn main() {
    run_main("cwin", gen, exec);
}
