//! C18 (whole engine, real time): `ChannelSource → (d boundaries: shuffle / group_by, each followed by a
//! map) → collect_channel()` with `BatchMode::adaptive(1000, δ)` set on the source stream.
//!
//! header: `latency <d> <p> <delta_ms> <kind>`  (kind: `sh` = shuffle, `gb` = group_by, `mix` = alternating,
//!         `mg` = `stream_iter(empty).merge(channel stream)` followed by d shuffles)
//! ops:    `send <v> <pause_ms>`                  send `v` into the source channel, then sleep
//!         `trickle <first> <count> <step> <gap_ms>`  send first, first+step, … with `gap_ms` between them
//! The sender stays OPEN until every element has arrived on the collect_channel receiver (or the
//! deadline passed); only then it is dropped and the job joined.
//!
//! outputs (deterministic apart from the verdict):
//!   `a <v> ok|late|missing|lost|dup`   per `send`, in op order     (bound: 4·(d+2)·δ + 400 ms)
//!   `t <first> ok|late:<v>|missing:<v>|lost:<v>|dup:<v>`  per `trickle` (first offending element)
//!   `result <mode> [sorted outputs]`   for adaptive, single, fixed1, fixed3, fixed1000, adaptive2, adaptive5 (same scripted input, no
//!                                      pauses for the non-adaptive modes; the sender is closed at the end)
//! and a `# info …` comment line with the measured numbers (ignored by the driver and by bin/check).
use std::io::Write;
use std::sync::mpsc;
use std::time::{Duration, Instant};

use nvh::*;
use renoir::operator::source::ChannelSource;
use renoir::prelude::*;

const DELTAS: [u64; 3] = [5, 20, 50];
const SLACK_MS: u64 = 400;

fn bound_ms(d: u64, delta: u64) -> u64 {
    4 * (d + 2) * delta + SLACK_MS
}

fn gen(rng: &mut Rng, i: usize) -> Case {
    let d = 1 + (i % 4) as u64;
    let p = 1 + rng.below(3);
    let delta = DELTAS[(i / 4) % 3];
    // `mg`: the channel stream is first merged with a finite (empty) stream — a binary block one of whose
    // inputs has already ended while the other is a live source — and then crosses d shuffles
    let kind = *rng.pick(&["sh", "sh", "gb", "mix", "mg"]);
    let mut c = Case::new(&["latency", &d.to_string(), &p.to_string(), &delta.to_string(), kind]);
    let mut v = (i as i64 % 100) * 1000;
    // total pause budget keeps a run short; the last element is always followed by silence
    let mut budget = 300i64;
    let n = match rng.below(4) {
        0 => 1,
        1 => rng.range(2, 5),
        _ => rng.range(5, 30),
    };
    for _ in 0..n {
        v += rng.range(1, 7);
        let pause = match rng.below(6) {
            0 | 1 => 0,                                   // burst
            2 => rng.range(1, 3),                         // much shorter than δ
            3 => delta as i64,                            // around δ
            4 => rng.range(2 * delta as i64, 3 * delta as i64), // the pipeline goes idle in between
            _ => rng.range(0, delta as i64),
        }
        .min(budget.max(0));
        budget -= pause;
        c.ops(vec!["send".into(), v.to_string(), pause.to_string()]);
    }
    c
}

/// Witness of finding F12 (starved batcher), replayed by every run: `0` warms the path up; `15` finds
/// the timer of its batcher elapsed and is flushed at once (`last_send` := now); `30`, `45` follow
/// immediately and are buffered in block 1's batcher towards the downstream replica of key class 1;
/// then block 1 keeps receiving elements of key class 2 (another replica) every millisecond, so its
/// receive timeout never expires and nothing is ever enqueued into the batcher that holds `30`, `45`.
fn witness_f12() -> Case {
    let mut c = Case::new(&["latency", "2", "2", "100", "gb"]);
    c.op(&["send", "0", "300"]);
    c.op(&["send", "15", "0"]);
    c.op(&["send", "30", "0"]);
    c.op(&["send", "45", "2"]);
    c.op(&["trickle", "18", "2300", "15", "1"]);
    c
}

fn f(x: i64) -> i64 {
    x * 2 + 1
}

macro_rules! sh {
    ($s:expr) => {
        $s.shuffle().map(f)
    };
}
macro_rules! gb3 {
    ($s:expr) => {
        $s.group_by(|x: &i64| *x % 3).map(|(_, x)| f(x)).drop_key()
    };
}
macro_rules! gb5 {
    ($s:expr) => {
        $s.group_by(|x: &i64| *x % 5).map(|(_, x)| f(x)).drop_key()
    };
}

#[derive(Clone)]
enum Step {
    Send(i64, u64),
    Trickle(i64, u64, i64, u64),
}

struct RunResult {
    /// (output value, arrival time)
    arrivals: Vec<(i64, Instant)>,
    /// (input value, send time)
    sends: Vec<(i64, Instant)>,
    closed_at: Instant,
    hang: bool,
}

/// One run of the real engine. `timed`: honour the pauses and keep the sender open until everything
/// arrived or `deadline_ms` after the last send passed; otherwise send back to back and close.
fn run_engine(d: u64, p: u64, kind: &str, bm: BatchMode, steps: &[Step], timed: bool, deadline_ms: u64) -> RunResult {
    let (tx, source) = ChannelSource::<i64>::new(4096);
    let (rx_tx, rx_rx) = mpsc::channel();
    let (done_tx, done_rx) = mpsc::channel::<()>();
    let kind = kind.to_string();
    std::thread::Builder::new()
        .name("engine".into())
        .spawn(move || {
            let ctx = StreamContext::new(RuntimeConfig::local(p).unwrap());
            let s = ctx.stream(source).batch_mode(bm);
            let rx = match (kind.as_str(), d) {
                ("sh", 1) => sh!(s).collect_channel(),
                ("sh", 2) => sh!(sh!(s)).collect_channel(),
                ("sh", 3) => sh!(sh!(sh!(s))).collect_channel(),
                ("sh", _) => sh!(sh!(sh!(sh!(s)))).collect_channel(),
                ("gb", 1) => gb3!(s).collect_channel(),
                ("gb", 2) => gb5!(gb3!(s)).collect_channel(),
                ("gb", 3) => gb3!(gb5!(gb3!(s))).collect_channel(),
                ("gb", _) => gb5!(gb3!(gb5!(gb3!(s)))).collect_channel(),
                ("mg", 1) => sh!(ctx.stream_iter(0..0i64).merge(s)).collect_channel(),
                ("mg", 2) => sh!(sh!(ctx.stream_iter(0..0i64).merge(s))).collect_channel(),
                ("mg", 3) => sh!(sh!(sh!(ctx.stream_iter(0..0i64).merge(s)))).collect_channel(),
                ("mg", _) => sh!(sh!(sh!(sh!(ctx.stream_iter(0..0i64).merge(s))))).collect_channel(),
                (_, 1) => sh!(s).collect_channel(),
                (_, 2) => gb5!(sh!(s)).collect_channel(),
                (_, 3) => sh!(gb5!(sh!(s))).collect_channel(),
                (_, _) => gb5!(sh!(gb5!(sh!(s)))).collect_channel(),
            };
            rx_tx.send(rx).unwrap();
            ctx.execute_blocking();
            let _ = done_tx.send(());
        })
        .unwrap();
    let rx = rx_rx.recv().unwrap();
    let (arr_tx, arr_rx) = mpsc::channel::<(i64, Instant)>();
    let collector = std::thread::spawn(move || {
        while let Ok(v) = rx.recv() {
            if arr_tx.send((v, Instant::now())).is_err() {
                break;
            }
        }
    });
    if timed {
        // let the workers come up (not part of the property)
        std::thread::sleep(Duration::from_millis(30));
    }
    let mut sends = vec![];
    let mut arrivals = vec![];
    let send_one = |v: i64, pause: u64, sends: &mut Vec<(i64, Instant)>| {
        sends.push((v, Instant::now()));
        tx.send(v).unwrap();
        if timed && pause > 0 {
            std::thread::sleep(Duration::from_millis(pause));
        }
    };
    for st in steps {
        match *st {
            Step::Send(v, pause) => send_one(v, pause, &mut sends),
            Step::Trickle(first, count, step, gap) => {
                for k in 0..count {
                    send_one(first + step * k as i64, gap, &mut sends);
                }
            }
        }
    }
    if timed {
        // never send again, keep the sender open
        let deadline = Instant::now() + Duration::from_millis(deadline_ms);
        while arrivals.len() < sends.len() {
            let left = deadline.saturating_duration_since(Instant::now());
            if left.is_zero() {
                break;
            }
            match arr_rx.recv_timeout(left) {
                Ok(a) => arrivals.push(a),
                Err(_) => break,
            }
        }
    }
    let closed_at = Instant::now();
    drop(tx);
    let hang = done_rx.recv_timeout(Duration::from_secs(15 * nvh::load_factor() as u64)).is_err();
    if !hang {
        let _ = collector.join();
    }
    while let Ok(a) = arr_rx.try_recv() {
        arrivals.push(a);
    }
    RunResult {
        arrivals,
        sends,
        closed_at,
        hang,
    }
}

fn g(d: u64, v: i64) -> i64 {
    (0..d).fold(v, |x, _| f(x))
}

/// verdict of one element of a timed run
fn verdict(r: &RunResult, d: u64, bound: Duration, v: i64, sent: Instant) -> (&'static str, Option<Duration>) {
    let want = g(d, v);
    let hits: Vec<&(i64, Instant)> = r.arrivals.iter().filter(|a| a.0 == want).collect();
    match hits.len() {
        0 => ("lost", None),
        1 => {
            let at = hits[0].1;
            let lat = at.saturating_duration_since(sent);
            if at > r.closed_at {
                ("missing", Some(lat)) // withheld until the sender was dropped
            } else if lat > bound {
                ("late", Some(lat))
            } else {
                ("ok", Some(lat))
            }
        }
        _ => ("dup", None),
    }
}

/// A lateness that is not an artefact of a slow machine: the element was OVERTAKEN — something sent
/// more than half the bound later arrived before it (or it never arrived although later ones did).
fn overtaken(r: &RunResult, d: u64, bound: Duration, v: i64, sent: Instant) -> bool {
    let mine = r.arrivals.iter().find(|a| a.0 == g(d, v)).map(|a| a.1);
    r.sends.iter().any(|(u, su)| {
        *su >= sent + bound / 2
            && r.arrivals.iter().any(|a| a.0 == g(d, *u) && mine.map(|m| a.1 < m).unwrap_or(true))
    })
}

fn fmt_result(mode: &str, r: &RunResult) -> String {
    if r.hang {
        return format!("result {mode} hang");
    }
    let mut v: Vec<i64> = r.arrivals.iter().map(|a| a.0).collect();
    v.sort();
    format!("result {mode} [{}]", v.iter().map(|x| x.to_string()).collect::<Vec<_>>().join(","))
}

fn exec(c: &Case) -> (Vec<String>, String) {
    let d: u64 = c.header[1].parse().unwrap();
    let p: u64 = c.header[2].parse().unwrap();
    let delta: u64 = c.header[3].parse().unwrap();
    let kind = c.header[4].as_str();
    let steps: Vec<Step> = c
        .ops
        .iter()
        .filter_map(|op| match op[0].as_str() {
            "send" => Some(Step::Send(op[1].parse().ok()?, op[2].parse().ok()?)),
            "trickle" => Some(Step::Trickle(
                op[1].parse().ok()?,
                op[2].parse().ok()?,
                op[3].parse().ok()?,
                op[4].parse().ok()?,
            )),
            _ => None,
        })
        .collect();
    // the merge of `mg` is one more block boundary
    let bound = bound_ms(if kind == "mg" { d + 1 } else { d }, delta);
    let bound_d = Duration::from_millis(bound);
    let mut out = vec![];
    let mut info = String::new();
    // the timed adaptive run; a wall-clock bound on a busy machine can be missed by accident, the
    // failure the property is about ("never flushed") cannot pass by accident: best of 3 attempts, unless
    // every failure of an attempt is confirmed by overtaking (then it is reported at once)
    for attempt in 1..=3 {
        out.clear();
        let r = run_engine(d, p, kind, BatchMode::adaptive(1000, Duration::from_millis(delta)), &steps, true, bound + 200);
        let mut worst = Duration::ZERO;
        let mut all_ok = !r.hang;
        // every failure of this attempt is confirmed by overtaking: no point in retrying
        let mut confirmed = !r.hang;
        // `missing` (withheld until the sender was dropped), `lost`, `dup` are never retried
        let mut hard = r.hang;
        let mut idx = 0usize;
        let mut lats: Vec<String> = vec![];
        for st in &steps {
            match *st {
                Step::Send(v, _) => {
                    let (w, lat) = verdict(&r, d, bound_d, v, r.sends[idx].1);
                    if w != "ok" {
                        confirmed &= overtaken(&r, d, bound_d, v, r.sends[idx].1);
                        hard |= w != "late";
                    }
                    idx += 1;
                    worst = worst.max(lat.unwrap_or_default());
                    lats.push(lat.map(|l| l.as_millis().to_string()).unwrap_or("-".into()));
                    all_ok &= w == "ok";
                    out.push(format!("a {v} {w}"));
                }
                Step::Trickle(first, count, step, _) => {
                    let mut line = format!("t {first} ok");
                    for k in 0..count {
                        let v = first + step * k as i64;
                        let (w, lat) = verdict(&r, d, bound_d, v, r.sends[idx].1);
                        idx += 1;
                        worst = worst.max(lat.unwrap_or_default());
                        if w != "ok" && line.ends_with(" ok") {
                            line = format!("t {first} {w}:{v}");
                            all_ok = false;
                            confirmed = false;
                            hard |= w != "late";
                        }
                    }
                    out.push(line);
                }
            }
        }
        out.push(fmt_result("adaptive", &r));
        info = format!(
            "# info worst_latency_ms={} bound_ms={} elements={} attempts={} send_latencies_ms={}",
            worst.as_millis(),
            bound,
            r.sends.len(),
            attempt,
            lats.join(",")
        );
        if all_ok || confirmed || hard {
            break;
        }
    }
    let dl = Duration::from_millis(delta);
    for (name, bm) in [
        ("single", BatchMode::single()),
        ("fixed1", BatchMode::fixed(1)),
        ("fixed3", BatchMode::fixed(3)),
        ("fixed1000", BatchMode::fixed(1000)),
        ("adaptive2", BatchMode::adaptive(2, dl)),
        ("adaptive5", BatchMode::adaptive(5, dl)),
    ] {
        let r = run_engine(d, p, kind, bm, &steps, false, 0);
        out.push(fmt_result(name, &r));
    }
    (out, info)
}

fn main() {
    // like `nvh::run_main`, plus the `# info` comment line per case
    let args = parse_args();
    std::panic::set_hook(Box::new(|_| {}));
    let cases: Vec<(String, Case)> = if let Some(p) = &args.replay {
        read_cases(p)
    } else {
        let mut rng = Rng::new(args.seed);
        let mut v: Vec<(String, Case)> = (0..args.cases)
            .map(|i| {
                let mut r = rng.fork();
                (format!("latency-{}-{i}", args.seed), gen(&mut r, i))
            })
            .collect();
        if args.cases > 0 {
            v.push((format!("latency-{}-witnessF12", args.seed), witness_f12()));
        }
        v
    };
    let out = std::io::stdout();
    let mut out = std::io::BufWriter::new(out.lock());
    for (id, case) in cases {
        let info = std::cell::RefCell::new(String::new());
        let res = guarded(
            |c| {
                let (o, i) = exec(c);
                *info.borrow_mut() = i;
                o
            },
            &case,
        );
        writeln!(out, "case {id} {}", case.header.join(" ")).unwrap();
        for op in &case.ops {
            writeln!(out, "{}", op.join(" ")).unwrap();
        }
        for r in res {
            writeln!(out, "> {r}").unwrap();
        }
        let info = info.borrow();
        if !info.is_empty() {
            writeln!(out, "{info}").unwrap();
        }
        writeln!(out, "end").unwrap();
        out.flush().unwrap();
    }
}
