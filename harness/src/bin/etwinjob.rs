//! C13 (engine level): event-time windows behind a `group_by` shuffle with SEVERAL upstream
//! replicas, i.e. behind the `Start` watermark frontier (watermark seen by the window = minimum
//! over the source replicas).
//!
//! job: `stream_par_iter(per-replica script) → add_timestamps(ts, watermark) → group_by(key)
//!       → window(EventTimeWindow::sliding/tumbling) → fold(Vec::new(), push) → collect_vec`
//! on `RuntimeConfig::local(n)`, n = 1..4 (n source replicas, n window replicas).
//!
//! header: `etwinjob <n> <size> <slide>`; ops: `s <replica> <key> <id> <ts> <wm|->` = element
//! `(key,id,ts,wm)` of source replica `<replica>`; `wm` is the watermark emitted right after it.
//! Every replica's script is watermark-safe on its own. The interleaving of the replicas at the
//! window operator is decided by the scheduler, so there is no deterministic model output: the
//! driver echoes the (sorted) result lines and evaluates the property oracle on them.
//! output lines: `(key,[(key,id,ts,wm),…])`, sorted.
use std::sync::mpsc;
use std::time::Duration;

use nvh::*;
use renoir::operator::window::EventTimeWindow;
use renoir::{RuntimeConfig, StreamContext};

fn field(v: &Val, i: usize) -> i64 {
    match v {
        Val::Tup(l) => match &l[i] {
            Val::Int(n) => *n,
            Val::Some(b) => b.int(),
            _ => i64::MIN,
        },
        _ => i64::MIN,
    }
}

fn gen(rng: &mut Rng, i: usize) -> Case {
    let n = rng.range(1, 4);
    let size = rng.range(1, 8);
    let slide = match rng.below(10) {
        0..=4 => size,
        5 => 1,
        6..=8 => rng.range(1, size),
        _ => rng.range(size, 9),
    };
    let mut c = Case::new(&["etwinjob", &n.to_string(), &size.to_string(), &slide.to_string()]);
    let nkeys = rng.range(1, 3);
    let mut id = (i as i64 % 1000) * 100;
    let base = rng.range(0, 10);
    for r in 0..n {
        // some replicas stay empty or lag far behind (the frontier is held back by the slowest one)
        let len = match rng.below(6) {
            0 => 0,
            _ => rng.range(1, 14),
        };
        let mut cur = base + if rng.chance(1, 4) { rng.range(10, 40) } else { rng.range(0, 5) };
        let mut lw: Option<i64> = None;
        let bound = rng.range(0, size + 2);
        for _ in 0..len {
            id += 1;
            if rng.chance(1, 8) {
                cur += size.max(slide) * rng.range(2, 4);
            } else {
                cur += rng.range(0, 2);
            }
            let ts = (cur + rng.range(-bound, bound.min(2))).max(lw.map(|w| w + 1).unwrap_or(i64::MIN));
            // watermark after this element: > previous watermark of the replica; later elements stay above it
            let wm = if rng.chance(2, 5) {
                let w = match rng.below(4) {
                    0 => ts,
                    1 => cur - bound,
                    2 => cur,
                    _ => ts + size,
                };
                let w = w.max(lw.map(|l| l + 1).unwrap_or(i64::MIN));
                lw = Some(w);
                cur = cur.max(w);
                Some(w)
            } else {
                None
            };
            let k = rng.range(0, nkeys - 1);
            c.ops(vec![
                "s".into(),
                r.to_string(),
                k.to_string(),
                id.to_string(),
                ts.to_string(),
                wm.map(|w| w.to_string()).unwrap_or("-".into()),
            ]);
        }
    }
    c
}

fn exec(c: &Case) -> Vec<String> {
    let n: u64 = c.header[1].parse().unwrap();
    let size: i64 = c.header[2].parse().unwrap();
    let slide: i64 = c.header[3].parse().unwrap();
    let mut data: Vec<Vec<Val>> = vec![vec![]; n as usize];
    for op in &c.ops {
        if op[0] != "s" {
            continue;
        }
        let r: usize = op[1].parse().unwrap();
        let p = |s: &str| Val::Int(s.parse().unwrap());
        let wm = if op[5] == "-" { Val::None } else { Val::Some(Box::new(p(&op[5]))) };
        if r < data.len() {
            data[r].push(Val::Tup(vec![p(&op[2]), p(&op[3]), p(&op[4]), wm]));
        }
    }
    let (tx, rx) = mpsc::channel();
    std::thread::spawn(move || {
        let res = std::panic::catch_unwind(std::panic::AssertUnwindSafe(|| {
            let ctx = StreamContext::new(RuntimeConfig::local(n).unwrap());
            let descr = if size == slide { EventTimeWindow::tumbling(size) } else { EventTimeWindow::sliding(size, slide) };
            let out = ctx
                .stream_par_iter(move |id: u64, _peers: u64| data.get(id as usize).cloned().unwrap_or_default().into_iter())
                .add_timestamps(
                    |v: &Val| field(v, 2),
                    |v: &Val, _ts: &i64| {
                        let w = field(v, 3);
                        if w == i64::MIN {
                            None
                        } else {
                            Some(w)
                        }
                    },
                )
                .group_by(|v: &Val| field(v, 0))
                .window(descr)
                .fold(Vec::new(), |acc: &mut Vec<Val>, x: Val| acc.push(x))
                .collect_vec();
            ctx.execute_blocking();
            out.get().unwrap_or_default()
        }));
        let _ = tx.send(res);
    });
    match rx.recv_timeout(Duration::from_secs(20 * nvh::load_factor() as u64)) {
        Ok(Ok(rs)) => {
            let mut lines: Vec<String> =
                rs.into_iter().map(|(k, items)| format!("{}", Val::pair(Val::Int(k), Val::List(items)))).collect();
            lines.sort();
            lines
        }
        Ok(Err(e)) => {
            let msg = if let Some(s) = e.downcast_ref::<String>() {
                s.clone()
            } else if let Some(s) = e.downcast_ref::<&str>() {
                s.to_string()
            } else {
                "unknown".into()
            };
            vec![format!("panic:{}", classify_panic(&msg))]
        }
        Err(_) => vec!["hang".into()],
    }
}

fn main() {
    run_main("etwinjob", gen, exec);
}
