//! C15 (file source / non-parallel source): random file contents are written to a scratch file and read by
//! the REAL `FileSource` in a real local environment with `n` replicas; every line is tagged with the
//! replica that read it (`renoir::verif::replica_coord()` inside a `map` fused into the source block).
//!
//! header: `file <n> <mode>` (mode `F` = `stream_file`, mode `I` = `stream_iter` over the bytes as items);
//! ops: `bytes <b,b,…>` (decimal byte values; the content is the concatenation of all op lines, so every
//! subset of the op lines is a valid case);
//! output: one line per replica `0..n`: `<replica> [[b,…],[b,…],…]` (mode F: the lines it emitted, in
//! order, as byte lists) / `<replica> [b,…]` (mode I: the items it emitted).
use nvh::*;
use renoir::{RuntimeConfig, StreamContext};
use std::sync::atomic::{AtomicUsize, Ordering};

static COUNTER: AtomicUsize = AtomicUsize::new(0);
const SCRATCH: &str = concat!(env!("CARGO_MANIFEST_DIR"), "/../.scratch");

/// Fixed boundary cases replayed first in every run: (replicas, content).
const FIXED: [(u64, &[u8]); 6] = [
    (3, b""),                       // empty file
    (9, b"a\nb"),                   // more replicas than bytes, no final newline
    (4, b"\n\n\n\n\n"),             // only empty lines
    (3, b"aaaaaaaaaaaaaaaaaaaa\nb\n"), // a line longer than two ranges
    (2, b"ab\r\ncd\r\n"),           // CRLF, a range boundary between \r and \n
    (2, b"ab\ncd\n"),               // a line starting exactly at a range boundary
];

fn gen(rng: &mut Rng, i: usize) -> Case {
    if i < FIXED.len() {
        let (n, bytes) = FIXED[i];
        let mut c = Case::new(&["file", &n.to_string(), "F"]);
        for b in bytes {
            c.ops(vec!["bytes".into(), b.to_string()]);
        }
        return c;
    }
    let n = match rng.below(10) {
        0 => 1,
        _ => rng.range(2, 9),
    };
    let mode = if rng.chance(1, 12) { "I" } else { "F" };
    let mut c = Case::new(&["file", &n.to_string(), mode]);
    let mut bytes: Vec<u8> = vec![];
    let letters = [b'a', b'b', b'c'];
    let shape = rng.below(10);
    let target = match rng.below(4) {
        0 => rng.range(0, 8),   // often fewer bytes than replicas
        1 => rng.range(0, 20),
        _ => rng.range(0, 70),
    } as usize;
    match shape {
        0 => {}                                               // empty file
        1 => {
            // only terminators / empty lines
            while bytes.len() < target {
                if rng.chance(1, 3) {
                    bytes.push(b'\r');
                }
                bytes.push(b'\n');
            }
        }
        2 => {
            // a single line longer than every range, with or without final newline
            for _ in 0..target.max(1) {
                bytes.push(*rng.pick(&letters));
            }
            if rng.chance(1, 2) {
                bytes.push(b'\n');
            }
        }
        _ => {
            // lines of mixed lengths (0..=maxlen), LF or CRLF, last line with or without terminator
            let maxlen = *rng.pick(&[0i64, 1, 2, 3, 5, 12, 30]);
            let crlf = rng.below(3); // 0 never, 1 always, 2 mixed
            while bytes.len() < target {
                for _ in 0..rng.range(0, maxlen) {
                    bytes.push(*rng.pick(&letters));
                }
                if crlf == 1 || (crlf == 2 && rng.chance(1, 2)) {
                    bytes.push(b'\r');
                }
                bytes.push(b'\n');
            }
            if rng.chance(1, 2) {
                // no final newline
                for _ in 0..rng.range(1, (maxlen).max(1)) {
                    bytes.push(*rng.pick(&letters));
                }
            } else if rng.chance(1, 4) {
                // stray CR at the very end
                bytes.push(b'\r');
            }
        }
    }
    // op lines: small chunks so that shrinking can remove pieces
    let mut i = 0;
    while i < bytes.len() {
        let k = (rng.range(1, 4) as usize).min(bytes.len() - i);
        let words: Vec<String> = bytes[i..i + k].iter().map(|b| b.to_string()).collect();
        c.ops(vec!["bytes".into(), words.join(",")]);
        i += k;
    }
    c
}

fn content(c: &Case) -> Vec<u8> {
    let mut bytes = vec![];
    for op in &c.ops {
        if op[0] != "bytes" || op.len() < 2 {
            continue;
        }
        for w in op[1].split(',') {
            if !w.is_empty() {
                bytes.push(w.parse::<u8>().expect("bad byte"));
            }
        }
    }
    bytes
}

fn fmt_bytes(b: &[u8]) -> String {
    let w: Vec<String> = b.iter().map(|x| x.to_string()).collect();
    format!("[{}]", w.join(","))
}

fn exec(c: &Case) -> Vec<String> {
    let n: u64 = c.header[1].parse().unwrap();
    let mode = c.header[2].as_str();
    let bytes = content(c);
    let replica = || renoir::verif::replica_coord().expect("not on a worker thread").replica_id;
    let mut per: Vec<Vec<String>> = vec![vec![]; n as usize];
    match mode {
        "F" => {
            std::fs::create_dir_all(SCRATCH).unwrap();
            let path = format!(
                "{SCRATCH}/c15-{}-{}.txt",
                std::process::id(),
                COUNTER.fetch_add(1, Ordering::SeqCst)
            );
            std::fs::write(&path, &bytes).unwrap();
            // make sure the file is removed even if the engine panics
            struct Rm(String);
            impl Drop for Rm {
                fn drop(&mut self) {
                    let _ = std::fs::remove_file(&self.0);
                }
            }
            let _rm = Rm(path.clone());
            let ctx = StreamContext::new(RuntimeConfig::local(n).unwrap());
            let out = ctx
                .stream_file(&path)
                .map(move |line: String| (replica(), line))
                .collect_vec();
            ctx.execute_blocking();
            for (r, line) in out.get().expect("no output") {
                per[r as usize].push(fmt_bytes(line.as_bytes()));
            }
        }
        "I" => {
            let ctx = StreamContext::new(RuntimeConfig::local(n).unwrap());
            let out = ctx
                .stream_iter(bytes.clone().into_iter())
                .map(move |b: u8| (replica(), b))
                .collect_vec();
            ctx.execute_blocking();
            for (r, b) in out.get().expect("no output") {
                per[r as usize].push(b.to_string());
            }
        }
        _ => panic!("bad mode"),
    }
    per.iter()
        .enumerate()
        .map(|(r, l)| format!("{r} [{}]", l.join(",")))
        .collect()
}

fn main() {
    run_main("file", gen, exec);
}
