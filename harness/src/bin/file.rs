//! C15 (file source / non-parallel source): random file contents are written to a scratch file and read by
//! the REAL `FileSource` in a real local environment with `n` replicas; every line is tagged with the
//! replica that read it (`renoir::verif::replica_coord()` inside a `map` fused into the source block).
//!
//! header: `file <n> <mode>` (mode `F` = `stream_file`, mode `I` = `stream_iter` over the bytes as items);
//! ops: `bytes <b,b,…>` | `rep <count> <b,b,…>` (decimal byte values; the content is the concatenation of all
//! op lines, `rep` repeats its pattern `count` times; every subset of the op lines is a valid case);
//! output: one line per replica `0..n`: `<replica> [[b,…],[b,…],…]` (mode F: the lines it emitted, in
//! order, as byte lists) / `<replica> [b,…]` (mode I: the items it emitted).
use nvh::*;
use renoir::{RuntimeConfig, StreamContext};
use std::sync::atomic::{AtomicUsize, Ordering};

static COUNTER: AtomicUsize = AtomicUsize::new(0);
const SCRATCH: &str = concat!(env!("CARGO_MANIFEST_DIR"), "/../.scratch");

/// Fixed boundary cases replayed first in every run: (replicas, content).
const FIXED: [(u64, &[u8]); 6] = [
    (3, b""),                       // empty file
    (9, b"a\nb"),                   // more replicas than bytes, no final newline
    (4, b"\n\n\n\n\n"),             // only empty lines
    (3, b"aaaaaaaaaaaaaaaaaaaa\nb\n"), // a line longer than two ranges
    (2, b"ab\r\ncd\r\n"),           // CRLF, a range boundary between \r and \n
    (2, b"ab\ncd\n"),               // a line starting exactly at a range boundary
];

fn gen(rng: &mut Rng, i: usize) -> Case {
    if i < FIXED.len() {
        let (n, bytes) = FIXED[i];
        let mut c = Case::new(&["file", &n.to_string(), "F"]);
        for b in bytes {
            c.ops(vec!["bytes".into(), b.to_string()]);
        }
        return c;
    }
    if rng.chance(1, 40) {
        return gen_large(rng);
    }
    let n = match rng.below(10) {
        0 => 1,
        _ => rng.range(2, 9),
    };
    if rng.chance(1, 4) {
        // the REAL non-parallel source: `stream_iter` (IteratorSource) over 0..300 items, n = 1..9 workers
        let mut c = Case::new(&["file", &n.to_string(), "I"]);
        let len = match rng.below(4) {
            0 => rng.range(0, 3),
            1 => rng.range(0, 30),
            _ => rng.range(0, 300),
        } as usize;
        let items: Vec<u8> = (0..len).map(|_| rng.below(256) as u8).collect();
        push_ops(&mut c, &items, rng);
        return c;
    }
    let mode = "F";
    let mut c = Case::new(&["file", &n.to_string(), mode]);
    let mut bytes: Vec<u8> = vec![];
    let letters = [b'a', b'b', b'c'];
    let shape = rng.below(10);
    let target = match rng.below(4) {
        0 => rng.range(0, 8),   // often fewer bytes than replicas
        1 => rng.range(0, 20),
        _ => rng.range(0, 70),
    } as usize;
    match shape {
        0 => {}                                               // empty file
        1 => {
            // only terminators / empty lines
            while bytes.len() < target {
                if rng.chance(1, 3) {
                    bytes.push(b'\r');
                }
                bytes.push(b'\n');
            }
        }
        2 => {
            // a single line longer than every range, with or without final newline
            for _ in 0..target.max(1) {
                bytes.push(*rng.pick(&letters));
            }
            if rng.chance(1, 2) {
                bytes.push(b'\n');
            }
        }
        _ => {
            // lines of mixed lengths (0..=maxlen), LF or CRLF, last line with or without terminator
            let maxlen = *rng.pick(&[0i64, 1, 2, 3, 5, 12, 30]);
            let crlf = rng.below(3); // 0 never, 1 always, 2 mixed
            while bytes.len() < target {
                for _ in 0..rng.range(0, maxlen) {
                    bytes.push(*rng.pick(&letters));
                }
                if crlf == 1 || (crlf == 2 && rng.chance(1, 2)) {
                    bytes.push(b'\r');
                }
                bytes.push(b'\n');
            }
            if rng.chance(1, 2) {
                // no final newline
                for _ in 0..rng.range(1, (maxlen).max(1)) {
                    bytes.push(*rng.pick(&letters));
                }
            } else if rng.chance(1, 4) {
                // stray CR at the very end
                bytes.push(b'\r');
            }
        }
    }
    push_ops(&mut c, &bytes, rng);
    c
}

/// run-length encode the content into op lines (small chunks so that shrinking can remove pieces)
fn push_ops(c: &mut Case, bytes: &[u8], rng: &mut Rng) {
    let mut i = 0;
    while i < bytes.len() {
        let mut j = i;
        while j < bytes.len() && bytes[j] == bytes[i] {
            j += 1;
        }
        if j - i >= 8 {
            c.ops(vec!["rep".into(), (j - i).to_string(), bytes[i].to_string()]);
            i = j;
        } else {
            let k = (rng.range(1, 4) as usize).min(bytes.len() - i);
            let words: Vec<String> = bytes[i..i + k].iter().map(|b| b.to_string()).collect();
            c.ops(vec!["bytes".into(), words.join(",")]);
            i += k;
        }
    }
}

/// > 8 KiB: range boundaries at multiples of the BufReader capacity (8192); a line end is placed at
/// `boundary + {-2,-1,0,1}` (LF or CRLF) or a long line spans the boundary.
fn gen_large(rng: &mut Rng) -> Case {
    let n = rng.range(2, 4) as usize;
    let mut c = Case::new(&["file", &n.to_string(), "F"]);
    let size = 8192 * n + rng.range(0, n as i64 - 1) as usize;
    let mut b = vec![b'a'; size];
    let mut p = rng.range(0, 400) as usize;
    while p < size {
        b[p] = b'\n';
        p += rng.range(1, 400) as usize;
    }
    for i in 1..n {
        let bd = 8192 * i;
        if rng.chance(1, 3) {
            for x in b.iter_mut().take((bd + 3000).min(size)).skip(bd - 3000) {
                *x = b'a';
            }
        } else {
            let at = (bd as i64 + rng.range(-2, 1)) as usize;
            for x in b.iter_mut().take((at + 3).min(size)).skip(at - 3) {
                *x = b'a';
            }
            b[at] = b'\n';
            if rng.chance(1, 3) {
                b[at - 1] = b'\r';
            }
        }
    }
    if rng.chance(1, 2) {
        b[size - 1] = b'\n';
    }
    push_ops(&mut c, &b, rng);
    c
}

fn content(c: &Case) -> Vec<u8> {
    let parse = |s: &str| -> Vec<u8> {
        s.split(',').filter(|w| !w.is_empty()).map(|w| w.parse::<u8>().expect("bad byte")).collect()
    };
    let mut bytes = vec![];
    for op in &c.ops {
        match (op[0].as_str(), op.len()) {
            ("bytes", 2) => bytes.extend(parse(&op[1])),
            ("rep", 3) => {
                let k: usize = op[1].parse().expect("bad count");
                let pat = parse(&op[2]);
                for _ in 0..k {
                    bytes.extend(&pat);
                }
            }
            _ => {}
        }
    }
    bytes
}

fn fmt_bytes(b: &[u8]) -> String {
    let w: Vec<String> = b.iter().map(|x| x.to_string()).collect();
    format!("[{}]", w.join(","))
}

fn exec(c: &Case) -> Vec<String> {
    let n: u64 = c.header[1].parse().unwrap();
    let mode = c.header[2].as_str();
    let bytes = content(c);
    let replica = || renoir::verif::replica_coord().expect("not on a worker thread").replica_id;
    let mut per: Vec<Vec<String>> = vec![vec![]; n as usize];
    match mode {
        "F" => {
            std::fs::create_dir_all(SCRATCH).unwrap();
            let path = format!(
                "{SCRATCH}/c15-{}-{}.txt",
                std::process::id(),
                COUNTER.fetch_add(1, Ordering::SeqCst)
            );
            std::fs::write(&path, &bytes).unwrap();
            // make sure the file is removed even if the engine panics
            struct Rm(String);
            impl Drop for Rm {
                fn drop(&mut self) {
                    let _ = std::fs::remove_file(&self.0);
                }
            }
            let _rm = Rm(path.clone());
            let ctx = StreamContext::new(RuntimeConfig::local(n).unwrap());
            let out = ctx
                .stream_file(&path)
                .map(move |line: String| (replica(), line))
                .collect_vec();
            ctx.execute_blocking();
            for (r, line) in out.get().expect("no output") {
                per[r as usize].push(fmt_bytes(line.as_bytes()));
            }
        }
        "I" => {
            let ctx = StreamContext::new(RuntimeConfig::local(n).unwrap());
            let out = ctx
                .stream_iter(bytes.clone().into_iter())
                .map(move |b: u8| (replica(), b))
                .collect_vec();
            ctx.execute_blocking();
            for (r, b) in out.get().expect("no output") {
                per[r as usize].push(b.to_string());
            }
        }
        _ => panic!("bad mode"),
    }
    per.iter()
        .enumerate()
        .map(|(r, l)| format!("{r} [{}]", l.join(",")))
        .collect()
}

fn main() {
    run_main("file", gen, exec);
}
