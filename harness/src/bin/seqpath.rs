//! C16 (first half): on a path where producer and consumer have a single replica, and inside an
//! operator chain, elements arrive in the order they were produced. Real single-replica pipelines
//! (`RuntimeConfig::local(1)`: every block has one replica) of random length, block boundaries
//! (`shuffle()`, `group_by`-free) in between, every batch mode; the OUTPUT ORDER is compared with
//! the iterator-chain reference.
use std::fmt::Display;
use std::time::Duration;

use nvh::*;
use renoir::operator::{Operator, StreamElement};
use renoir::structure::BlockStructure;
use renoir::{BatchMode, ExecutionMetadata, RuntimeConfig, Stream, StreamContext};

trait DynOp: Send {
    fn dyn_clone(&self) -> Box<dyn DynOp>;
    fn dyn_show(&self) -> String;
    fn dyn_setup(&mut self, m: &mut ExecutionMetadata);
    fn dyn_next(&mut self) -> StreamElement<i64>;
    fn dyn_structure(&self) -> BlockStructure;
}
impl<Op: Operator<Out = i64> + 'static> DynOp for Op {
    fn dyn_clone(&self) -> Box<dyn DynOp> {
        Box::new(self.clone())
    }
    fn dyn_show(&self) -> String {
        self.to_string()
    }
    fn dyn_setup(&mut self, m: &mut ExecutionMetadata) {
        self.setup(m)
    }
    fn dyn_next(&mut self) -> StreamElement<i64> {
        self.next()
    }
    fn dyn_structure(&self) -> BlockStructure {
        self.structure()
    }
}
struct BoxOp(Box<dyn DynOp>);
impl Clone for BoxOp {
    fn clone(&self) -> Self {
        BoxOp(self.0.dyn_clone())
    }
}
impl Display for BoxOp {
    fn fmt(&self, f: &mut std::fmt::Formatter<'_>) -> std::fmt::Result {
        write!(f, "{}", self.0.dyn_show())
    }
}
impl Operator for BoxOp {
    type Out = i64;
    fn setup(&mut self, m: &mut ExecutionMetadata) {
        self.0.dyn_setup(m)
    }
    fn next(&mut self) -> StreamElement<i64> {
        self.0.dyn_next()
    }
    fn structure(&self) -> BlockStructure {
        self.0.dyn_structure()
    }
}
fn boxed<Op: Operator<Out = i64> + 'static>(s: Stream<Op>) -> Stream<BoxOp> {
    s.add_operator(|prev| BoxOp(Box::new(prev)))
}

const BMS: &[&str] = &["default", "single", "fixed1", "fixed3", "fixed7", "fixed1024", "adaptive"];

fn parse_bm(s: &str) -> BatchMode {
    match s {
        "single" => BatchMode::single(),
        "fixed1" => BatchMode::fixed(1),
        "fixed3" => BatchMode::fixed(3),
        "fixed7" => BatchMode::fixed(7),
        "fixed1024" => BatchMode::fixed(1024),
        "adaptive" => BatchMode::adaptive(16, Duration::from_millis(2)),
        _ => BatchMode::default(),
    }
}

fn gen(rng: &mut Rng, _i: usize) -> Case {
    let n = match rng.below(5) {
        0 => rng.range(0, 3),
        1 => rng.range(3, 40),
        _ => rng.range(40, 1500),
    };
    let mut bm = *rng.pick(BMS);
    // slow producers: a stage `p <k>` in the source block pauses 12 ms (6 x max_delay of the `adaptive`
    // mode used here) after every k-th element, so that elements arrive at a batcher that still holds
    // earlier ones long after its last flush; the order must not depend on such pauses
    let slow = rng.chance(1, 5);
    let n = if slow { n.min(rng.range(5, 50)) } else { n };
    if slow {
        bm = "adaptive";
    }
    let mut c = Case::new(&["seqpath", &n.to_string(), bm]);
    if slow {
        c.ops(vec!["st".into(), "p".into(), rng.range(2, 6).to_string()]);
    }
    let len = rng.range(1, 7);
    for _ in 0..len {
        match rng.below(6) {
            0 => c.ops(vec!["st".into(), "m".into(), rng.range(1, 9).to_string()]),
            1 => c.ops(vec!["st".into(), "f".into(), rng.range(2, 5).to_string()]),
            2 => c.ops(vec!["st".into(), "d".into(), "0".into()]),
            _ => c.ops(vec!["st".into(), "s".into(), "0".into()]), // block boundary
        }
    }
    c
}

fn exec(c: &Case) -> Vec<String> {
    let n: i64 = c.header[1].parse().unwrap();
    let bm = parse_bm(&c.header[2]);
    let stages: Vec<(String, i64)> = c
        .ops
        .iter()
        .filter(|w| w[0] == "st" && w.len() == 3)
        .map(|w| (w[1].clone(), w[2].parse().unwrap_or(0)))
        .collect();
    let (tx, rx) = std::sync::mpsc::channel();
    std::thread::spawn(move || {
        let ctx = StreamContext::new(RuntimeConfig::local(1).unwrap());
        let mut s = boxed(ctx.stream_iter(0..n).batch_mode(bm));
        for (k, p) in stages {
            s = match k.as_str() {
                "m" => boxed(s.map(move |x| x * 3 + p)),
                "f" => boxed(s.filter(move |x| x % p != 0)),
                "d" => boxed(s.flat_map(|x| vec![x, x + 1_000_000])),
                "p" => {
                    // `p` is generated as the first stage, so x is the element's index
                    boxed(s.map(move |x| {
                        if p > 0 && (x + 1) % p == 0 {
                            std::thread::sleep(Duration::from_millis(12));
                        }
                        x
                    }))
                }
                _ => boxed(s.shuffle()),
            };
        }
        let out = s.collect_vec();
        ctx.execute_blocking();
        let _ = tx.send(out.get());
    });
    match rx.recv_timeout(Duration::from_secs(20 * nvh::load_factor() as u64)) {
        Ok(Some(v)) => vec![format!("[{}]", v.iter().map(|x| x.to_string()).collect::<Vec<_>>().join(","))],
        Ok(None) => vec!["none".into()],
        Err(_) => vec!["blocked".into()],
    }
}

fn main() {
    run_main("seqpath", gen, exec);
}
