//! C02 (links): whole-engine runs. A parallel source feeds a stamping map, then a shuffle /
//! group_by link to a second block whose sink is the probe. The process-wide link observer records
//! every batch handed to a `NetworkSender` (with its JSON payload) and every batch taken out of a
//! `NetworkReceiver` (kinds + timestamps); the probe records `(consumer replica, payload)` in
//! arrival order. Engine cases run sequentially (the observer is process-global).
//!
//! header: `links <hosts> <cores> <S|F|A> <n> <shuffle|group|bcast|split|join> <ts 0|1>`
//!         hosts = 1: `RuntimeConfig::local(cores)`; hosts = 2, 3: in-process hosts over loopback
//!         TCP (`RuntimeConfig::remote`, distinct 127.x.y.z addresses derived from the pid)
//!         shapes: shuffle / group: src+stamp -> (all-to-all) -> sink;  bcast: the same with `broadcast`
//!         (every consumer replica gets every element);  split: src -> split(2) -> [stamp -> shuffle ->
//!         sink | stamp -> group_by -> sink] (a block with two downstream blocks, four links);
//!         join: [srcA+stamp | srcB+stamp] -> join (ship hash) -> sink: TWO upstream blocks feed the
//!         same consumer block, so each consumer replica has two endpoints that differ only in
//!         `prev_block_id` (the `sender_block_id` half of the frame tag).
//! ops:    `i <source replica> <value>`, `j <source replica> <value>` (right input of `join`),
//!         `stall <ms>` (shuffle/group on >= 2 hosts)
//!         `quiet <ms>`: every source replica pauses for <ms> after half of its items, so that the TCP
//!         links carry nothing for that long while the job is still running, and are then used again
//! outputs (sorted by pair; `|` separates batches):
//!         `sent <p> <c> <elem>* (| <elem>*)*`   what producer p handed to the link towards c
//!         `recv <p> <c> <kind>* (| <kind>*)*`   what consumer c took out of its channel from p
//!         `probe <p> <c> <payload>*`            data seen by c's sink from p, in arrival order
//!         `joined <c> <(l,r)>*`                 (join) the pairs c's sink saw, sorted
//!         `misrouted <p> <c> <prev>`            a batch of block p.block taken from the endpoint of another prev block
use std::collections::BTreeMap;
use std::sync::atomic::{AtomicU64, Ordering};
use std::sync::{Arc, Mutex};
use std::time::Duration;

use nvh::*;
use renoir::config::{ConfigBuilder, HostConfig};
use renoir::operator::Operator;
use renoir::verif::{replica_coord, set_link_observer, Coord, LinkEvent};
use renoir::{BatchMode, RuntimeConfig, Stream, StreamContext};

type Payload = (u64, u64, u64, i64, i64); // producer block, host, replica, seq, value

static EVENTS: Mutex<Vec<LinkEvent>> = Mutex::new(Vec::new());
/// (consumer, producer, payload text)
static PROBE: Mutex<Vec<(Coord, Coord, String)>> = Mutex::new(Vec::new());
/// (consumer, joined pair text)
static JOINED: Mutex<Vec<(Coord, String)>> = Mutex::new(Vec::new());
static RUN: AtomicU64 = AtomicU64::new(0);

fn fmt_coord(c: Coord) -> String {
    format!("{}.{}.{}", c.block_id, c.host_id, c.replica_id)
}

fn fmt_payload(p: &Payload) -> String {
    format!("({},{},{},{},{})", p.0, p.1, p.2, p.3, p.4)
}

// ---------------------------------------------------------------------------------------------
// minimal JSON reader for the observer's payload rendering

#[derive(Debug)]
enum J {
    Num(String),
    Str(String),
    Arr(Vec<J>),
    Obj(Vec<(String, J)>),
}

fn skip_ws(b: &[u8], i: &mut usize) {
    while *i < b.len() && b[*i].is_ascii_whitespace() {
        *i += 1;
    }
}

fn parse_json(b: &[u8], i: &mut usize) -> J {
    skip_ws(b, i);
    match b[*i] {
        b'[' => {
            *i += 1;
            let mut v = vec![];
            loop {
                skip_ws(b, i);
                if b[*i] == b']' {
                    *i += 1;
                    return J::Arr(v);
                }
                if b[*i] == b',' {
                    *i += 1;
                    continue;
                }
                v.push(parse_json(b, i));
            }
        }
        b'{' => {
            *i += 1;
            let mut v = vec![];
            loop {
                skip_ws(b, i);
                if b[*i] == b'}' {
                    *i += 1;
                    return J::Obj(v);
                }
                if b[*i] == b',' {
                    *i += 1;
                    continue;
                }
                let k = match parse_json(b, i) {
                    J::Str(s) => s,
                    other => panic!("json: key {other:?}"),
                };
                skip_ws(b, i);
                assert_eq!(b[*i], b':');
                *i += 1;
                v.push((k, parse_json(b, i)));
            }
        }
        b'"' => {
            *i += 1;
            let s = *i;
            while b[*i] != b'"' {
                *i += 1;
            }
            let r = String::from_utf8(b[s..*i].to_vec()).unwrap();
            *i += 1;
            J::Str(r)
        }
        _ => {
            let s = *i;
            while *i < b.len() && (b[*i] == b'-' || b[*i].is_ascii_alphanumeric() || b[*i] == b'.') {
                *i += 1;
            }
            assert!(*i > s, "json: unexpected byte");
            J::Num(String::from_utf8(b[s..*i].to_vec()).unwrap())
        }
    }
}

fn render(j: &J) -> String {
    match j {
        J::Num(n) => n.clone(),
        J::Arr(v) => format!("({})", v.iter().map(render).collect::<Vec<_>>().join(",")),
        _ => "?".into(),
    }
}

/// the batch of a send event as protocol elements
fn json_elems(s: &str) -> Vec<String> {
    let mut i = 0;
    let J::Arr(v) = parse_json(s.as_bytes(), &mut i) else { panic!("json: batch is not an array") };
    v.iter()
        .map(|e| match e {
            J::Str(s) if s == "FlushAndRestart" => "FAR".to_string(),
            J::Str(s) if s == "Terminate" => "TERM".to_string(),
            J::Str(s) if s == "FlushBatch" => "FB".to_string(),
            J::Obj(kv) if kv.len() == 1 => match (kv[0].0.as_str(), &kv[0].1) {
                ("Item", p) => format!("I:{}", render(p)),
                ("Timestamped", J::Arr(pt)) if pt.len() == 2 => format!("T:{}:{}", render(&pt[0]), render(&pt[1])),
                ("Watermark", t) => format!("W:{}", render(t)),
                other => panic!("json: element {other:?}"),
            },
            other => panic!("json: element {other:?}"),
        })
        .collect()
}

// ---------------------------------------------------------------------------------------------

fn gen(rng: &mut Rng, i: usize) -> Case {
    if i % 40 == 0 {
        // one stalled-consumer run at the head of every run (longer stalls further on)
        let ms = if i == 0 { 1500 } else { *rng.pick(&[1200u64, 2500, 4500]) };
        return gen_stall(rng, i, ms);
    }
    if i % 10 == 7 {
        return gen_muxstress(rng, i);
    }
    if i % 20 == 11 {
        // short pauses under adaptive batching: an element arrives at a batcher that still holds earlier
        // ones long after its last flush (many x max_delay = 1 ms); per-pair order must not depend on it
        let mut c = gen_quiet(rng, i, 30);
        c.header[3] = "A".into();
        c.header[4] = rng.range(3, 8).to_string();
        return c;
    }
    if i == 1 || i % 160 == 81 {
        // an idle link: nothing is sent for 11 s (31 s further on in long runs), then the link is used again
        let ms = if i == 1 { 11_000 } else { *rng.pick(&[11_000u64, 31_000]) };
        return gen_quiet(rng, i, ms);
    }
    let hosts = if i % 7 == 5 { 3 } else if i % 3 == 2 { 2 } else { 1 };
    let cores = rng.range(1, 3);
    let (mode, n) = match rng.below(4) {
        0 => ("S", 1),
        1 => ("F", 1),
        2 => ("F", 3),
        _ => ("A", rng.range(2, 4)),
    };
    let kind = *rng.pick(&["shuffle", "shuffle", "group", "group", "bcast", "split", "split", "join", "join", "join"]);
    // the hash join panics on timestamped elements
    let ts = if kind != "join" && rng.chance(1, 3) { "1" } else { "0" };
    let mut c = Case::new(&["links", &hosts.to_string(), &cores.to_string(), mode, &n.to_string(), kind, ts]);
    let peers = hosts * cores;
    let count = match rng.below(4) {
        0 => rng.range(0, 3),
        1 => rng.range(60, 120), // more than CHANNEL_CAPACITY batches on one link
        _ => rng.range(5, 40),
    };
    for k in 0..count {
        let src = if rng.chance(1, 5) { 0 } else { rng.below(peers as u64) };
        let side = if kind == "join" && rng.chance(1, 2) { "j" } else { "i" };
        c.ops(vec![side.into(), src.to_string(), (i as i64 * 1000 + k).to_string()]);
    }
    c
}

/// Many single-element messages of three local senders interleave on ONE multiplexed connection per
/// direction (2 hosts x 3 cores, `Single` or `Fixed(1)`, every source replica busy): the closest a
/// whole-engine run gets to a component test of the multiplexer / demultiplexer threads.
fn gen_muxstress(rng: &mut Rng, i: usize) -> Case {
    let mode = if rng.chance(1, 2) { "S" } else { "F" };
    let kind = if rng.chance(1, 2) { "shuffle" } else { "group" };
    let mut c = Case::new(&["links", "2", "3", mode, "1", kind, "0"]);
    let count = rng.range(300, 600);
    for k in 0..count {
        c.ops(vec!["i".into(), rng.below(6).to_string(), (i as i64 * 1000 + k).to_string()]);
    }
    c
}

/// A consumer replica that stops draining its input for a while (a slow user function) while far
/// more than CHANNEL_CAPACITY batches are outstanding for it on a TCP link: back-pressure must
/// block the producers, never drop or reorder anything. `stall` = how long the first consumer
/// replica of the last host sleeps on its first item (ms).
fn gen_stall(rng: &mut Rng, i: usize, stall_ms: u64) -> Case {
    let (mode, n) = if rng.chance(1, 2) { ("S", 1) } else { ("F", rng.range(1, 4)) };
    let kind = if rng.chance(1, 2) { "shuffle" } else { "group" };
    let mut c = Case::new(&["links", "2", &rng.range(1, 2).to_string(), mode, &n.to_string(), kind, "0"]);
    c.ops(vec!["stall".into(), stall_ms.to_string()]);
    let count = rng.range(250, 400) * n;
    for k in 0..count {
        c.ops(vec!["i".into(), "0".into(), (i as i64 * 1000 + k).to_string()]);
    }
    c
}

/// A link that stays silent for a long time in the middle of a job (a bursty source, a selective filter,
/// a window that fires rarely) must still deliver everything sent afterwards.
fn gen_quiet(rng: &mut Rng, i: usize, quiet_ms: u64) -> Case {
    let (mode, n) = if rng.chance(1, 2) { ("S", 1) } else { ("F", rng.range(1, 3)) };
    let kind = if rng.chance(1, 2) { "shuffle" } else { "group" };
    let cores = rng.range(1, 2);
    let mut c = Case::new(&["links", "2", &cores.to_string(), mode, &n.to_string(), kind, "0"]);
    c.ops(vec!["quiet".into(), quiet_ms.to_string()]);
    let count = rng.range(40, 80);
    for k in 0..count {
        c.ops(vec!["i".into(), rng.below(2 * cores as u64).to_string(), (i as i64 * 1000 + k).to_string()]);
    }
    c
}

struct Cfg {
    /// pause of every source replica after half of its items (ms)
    quiet: u64,
    mode: BatchMode,
    kind: String,
    ts: bool,
    items: Arc<Vec<(u64, i64)>>,
    /// right input of `join`
    items_b: Arc<Vec<(u64, i64)>>,
    /// (host of the stalling consumer, ms)
    stall: Option<(u64, u64)>,
}

static STALLED: std::sync::atomic::AtomicBool = std::sync::atomic::AtomicBool::new(false);

fn maybe_stall(stall: Option<(u64, u64)>) {
    if let Some((host, ms)) = stall {
        let me = replica_coord().expect("probe outside a worker");
        if me.host_id == host && me.replica_id == 0 && !STALLED.swap(true, Ordering::SeqCst) {
            std::thread::sleep(Duration::from_millis(ms));
        }
    }
}

fn probe(consumer_item: &Payload, text: String) {
    let me = replica_coord().expect("probe outside a worker");
    let p = Coord::new(consumer_item.0, consumer_item.1, consumer_item.2);
    PROBE.lock().unwrap().push((me, p, text));
}

fn stamp<Op>(s: Stream<Op>) -> Stream<impl Operator<Out = Payload>>
where
    Op: Operator<Out = (i64, i64)> + 'static,
{
    s.map(|(seq, v)| {
        let c = replica_coord().expect("map outside a worker");
        (c.block_id, c.host_id, c.replica_id, seq, v)
    })
}

fn key(p: &Payload) -> i64 {
    p.4.rem_euclid(3)
}

fn finish<Op>(s: Stream<Op>, cfg: &Cfg)
where
    Op: Operator<Out = (i64, i64)> + 'static,
{
    let stall = cfg.stall;
    match cfg.kind.as_str() {
        "group" => {
            stamp(s).batch_mode(cfg.mode).group_by(key).for_each(move |(_k, p)| {
                maybe_stall(stall);
                probe(&p, fmt_payload(&p))
            }); // the link carries the item only; the key is recomputed downstream
        }
        "shuffle" => {
            stamp(s).batch_mode(cfg.mode).shuffle().for_each(move |p| {
                maybe_stall(stall);
                probe(&p, fmt_payload(&p))
            });
        }
        "bcast" => {
            stamp(s).batch_mode(cfg.mode).broadcast().for_each(|p| probe(&p, fmt_payload(&p)));
        }
        "split" => {
            // one block with two downstream blocks (forward links), each followed by an all-to-all link
            let mut parts = s.batch_mode(cfg.mode).split(2);
            let b = parts.pop().unwrap();
            let a = parts.pop().unwrap();
            stamp(a).shuffle().for_each(|p| probe(&p, fmt_payload(&p)));
            stamp(b).group_by(key).for_each(|(_k, p)| probe(&p, fmt_payload(&p)));
        }
        k => panic!("bad kind {k}"),
    }
}

fn source(env: &StreamContext, items: Arc<Vec<(u64, i64)>>, quiet: u64) -> Stream<impl Operator<Out = (i64, i64)>> {
    env.stream_par_iter(move |id: u64, peers: u64| {
        let mine: Vec<(i64, i64)> = items
            .iter()
            .filter(|(s, _)| s % peers == id)
            .enumerate()
            .map(|(seq, (_, v))| (seq as i64, *v))
            .collect();
        let half = mine.len() / 2;
        mine.into_iter().enumerate().map(move |(k, x)| {
            if quiet > 0 && k == half {
                std::thread::sleep(Duration::from_millis(quiet));
            }
            x
        })
    })
}

fn build(env: &StreamContext, cfg: &Cfg) {
    let src = source(env, cfg.items.clone(), cfg.quiet);
    if cfg.kind == "join" {
        // two upstream blocks, both hash-partitioned (all-to-all) into the same consumer block
        let a = stamp(src).batch_mode(cfg.mode);
        let b = stamp(source(env, cfg.items_b.clone(), 0)).batch_mode(cfg.mode);
        a.join(b, key, key).for_each(|(_k, (l, r))| {
            let me = replica_coord().expect("sink outside a worker");
            JOINED.lock().unwrap().push((me, format!("({},{})", fmt_payload(&l), fmt_payload(&r))));
        });
    } else if cfg.ts {
        finish(
            src.add_timestamps(|x: &(i64, i64)| x.0, |x: &(i64, i64), t: &i64| if x.0 % 3 == 2 { Some(*t) } else { None }),
            cfg,
        );
    } else {
        finish(src, cfg);
    }
}

fn run_job(hosts: u64, cores: u64, cfg: Cfg) -> Result<(), String> {
    let cfg = Arc::new(cfg);
    let (tx, rx) = std::sync::mpsc::channel();
    let configs: Vec<RuntimeConfig> = if hosts <= 1 {
        vec![RuntimeConfig::local(cores).unwrap()]
    } else {
        let run = RUN.fetch_add(1, Ordering::SeqCst);
        let pid = std::process::id() as u64;
        let hs: Vec<HostConfig> = (0..hosts)
            .map(|h| HostConfig {
                address: format!("127.{}.{}.{}", 1 + pid % 250, 1 + (pid / 250 + run) % 250, 1 + h),
                base_port: 20000 + ((pid * 7 + run * 13) % 20000) as u16,
                num_cores: cores,
                ssh: Default::default(),
                perf_path: None,
            })
            .collect();
        (0..hosts)
            .map(|h| ConfigBuilder::new_remote().add_hosts(&hs).host_id(h).build().unwrap())
            .collect()
    };
    let n = configs.len();
    for config in configs {
        let cfg = cfg.clone();
        let tx = tx.clone();
        std::thread::spawn(move || {
            let r = std::panic::catch_unwind(std::panic::AssertUnwindSafe(|| {
                let env = StreamContext::new(config);
                build(&env, &cfg);
                env.execute_blocking();
            }));
            let _ = tx.send(r.is_ok());
        });
    }
    for _ in 0..n {
        match rx.recv_timeout(Duration::from_millis(30_000 + 2 * cfg.quiet)) {
            Ok(true) => {}
            Ok(false) => return Err("panic:engine".into()),
            Err(_) => return Err("panic:timeout".into()),
        }
    }
    Ok(())
}

fn exec(c: &Case) -> Vec<String> {
    let hosts: u64 = c.header[1].parse().unwrap();
    let cores: u64 = c.header[2].parse().unwrap();
    let n: usize = c.header[4].parse().unwrap();
    let mode = match c.header[3].as_str() {
        "S" => BatchMode::single(),
        "F" => BatchMode::fixed(n),
        "A" => BatchMode::adaptive(n, Duration::from_millis(1)),
        m => panic!("bad mode {m}"),
    };
    let items: Vec<(u64, i64)> = c
        .ops
        .iter()
        .filter(|op| op[0] == "i")
        .map(|op| (op[1].parse().unwrap(), op[2].parse().unwrap()))
        .collect();
    let items_b: Vec<(u64, i64)> = c
        .ops
        .iter()
        .filter(|op| op[0] == "j")
        .map(|op| (op[1].parse().unwrap(), op[2].parse().unwrap()))
        .collect();
    let kind = c.header[5].clone();
    let stall = c
        .ops
        .iter()
        .find(|op| op[0] == "stall" && op.len() == 2)
        .and_then(|op| op[1].parse::<u64>().ok())
        .filter(|_| hosts >= 2 && (kind == "shuffle" || kind == "group"))
        .map(|ms| (hosts - 1, ms));
    STALLED.store(false, Ordering::SeqCst);
    let quiet = c
        .ops
        .iter()
        .find(|op| op[0] == "quiet" && op.len() == 2)
        .and_then(|op| op[1].parse::<u64>().ok())
        .unwrap_or(0)
        .min(120_000);
    let cfg = Cfg {
        quiet,
        mode,
        kind: kind.clone(),
        ts: c.header[6] == "1" && kind != "join",
        items: Arc::new(items),
        items_b: Arc::new(items_b),
        stall,
    };

    EVENTS.lock().unwrap().clear();
    PROBE.lock().unwrap().clear();
    JOINED.lock().unwrap().clear();
    set_link_observer(Some(Arc::new(|e: &LinkEvent| EVENTS.lock().unwrap().push(e.clone()))), true);
    let res = run_job(hosts, cores, cfg);
    set_link_observer(None, false);
    if let Err(e) = res {
        return vec![e];
    }

    type Key = (u64, (u64, u64, u64), (u64, u64, u64));
    let key = |prev: u64, p: Coord, c: Coord| -> Key {
        (prev, (p.block_id, p.host_id, p.replica_id), (c.block_id, c.host_id, c.replica_id))
    };
    let mut sent: BTreeMap<Key, Vec<String>> = BTreeMap::new();
    let mut recv: BTreeMap<Key, Vec<String>> = BTreeMap::new();
    let mut misrouted = vec![];
    for e in EVENTS.lock().unwrap().iter() {
        if e.prev_block_id != e.sender.block_id {
            // a batch of block `sender.block` on the endpoint that belongs to another previous block
            misrouted.push(format!(
                "misrouted {} {} {} {}",
                if e.send { "send" } else { "recv" },
                fmt_coord(e.sender),
                fmt_coord(e.dest),
                e.prev_block_id
            ));
            continue;
        }
        let k = key(e.prev_block_id, e.sender, e.dest);
        if e.send {
            let elems = json_elems(e.payload.as_deref().expect("send event without payload"));
            assert_eq!(elems.len(), e.kinds.len());
            let v = sent.entry(k).or_default();
            if !v.is_empty() {
                v.push("|".into());
            }
            v.extend(elems);
        } else {
            let v = recv.entry(k).or_default();
            if !v.is_empty() {
                v.push("|".into());
            }
            v.extend(e.kinds.iter().map(|(k, t)| match (*k, t) {
                ("T", Some(t)) => format!("T:{t}"),
                ("W", Some(t)) => format!("W:{t}"),
                (k, _) => k.to_string(),
            }));
        }
    }
    let mut probe: BTreeMap<Key, Vec<String>> = BTreeMap::new();
    for (me, p, text) in PROBE.lock().unwrap().iter() {
        probe.entry(key(p.block_id, *p, *me)).or_default().push(text.clone());
    }
    let mut out = vec![];
    let line = |tag: &str, k: &Key, v: &Vec<String>| {
        let p = Coord::new(k.1 .0, k.1 .1, k.1 .2);
        let c = Coord::new(k.2 .0, k.2 .1, k.2 .2);
        let mut w = vec![tag.to_string(), fmt_coord(p), fmt_coord(c)];
        w.extend(v.iter().cloned());
        w.join(" ")
    };
    for (k, v) in &sent {
        out.push(line("sent", k, v));
    }
    // `join`: the binary Start takes its batches through `NetworkReceiver::select[_timeout]`, which
    // are not hooked (`observe_recv` is only called by recv / try_recv / recv_timeout): the receive
    // events are incomplete there, so they are not printed; the sink's joined pairs are the
    // consumer-side observation for that shape.
    if kind != "join" {
        for (k, v) in &recv {
            out.push(line("recv", k, v));
        }
    }
    for (k, v) in &probe {
        out.push(line("probe", k, v));
    }
    let mut joined: BTreeMap<(u64, u64, u64), Vec<String>> = BTreeMap::new();
    for (me, text) in JOINED.lock().unwrap().iter() {
        joined.entry((me.block_id, me.host_id, me.replica_id)).or_default().push(text.clone());
    }
    for (c, mut v) in joined {
        v.sort();
        out.push(format!("joined {} {}", fmt_coord(Coord::new(c.0, c.1, c.2)), v.join(" ")));
    }
    misrouted.sort();
    out.extend(misrouted);
    out
}

fn main() {
    run_main("links", gen, exec);
}
