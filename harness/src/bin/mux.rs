//! C02 (mux): the REAL multiplexer and demultiplexer threads joined by ONE real TCP connection on
//! loopback (hook `renoir::verif::mux_demux_pair`: `DemuxHandle::new` + the local channel of every
//! endpoint registered + `MultiplexingSender::new` + one sender per (sender replica, endpoint)).
//! Several logical senders interleave whole batches towards several endpoints; the receivers are
//! drained in scripted order; at the end every sender is dropped (the connection closes), the
//! remaining messages are drained and the threads are joined.
//!
//! header: `mux <block> <host> <prev_block> <endpoint replica ids, csv> <senders h.r, csv>`
//! ops:    `s <sender idx> <endpoint idx> <elem>*`   send one batch (may be empty)
//!         `r <endpoint idx>`                        take one message out of that endpoint's channel
//!         `w <ms>`                                  the script pauses (a slow consumer)
//! outputs: `rx <k> <sender> <elem>*` | `rx <k> none` per `r` (none = nothing can have arrived:
//!         nothing outstanding for k, or it is stuck behind a frame whose channel is full);
//!         `fin <k> <sender> <elem>*` what was still outstanding at the end, per endpoint in arrival
//!         order; `rx <k> LOST` / `lost <k> <n>` sent but never arrived; `extra <k> …` anything beyond what was sent; `closed` when both threads ended.
use std::collections::VecDeque;
use std::sync::atomic::{AtomicU64, Ordering};
use std::time::{Duration, Instant};

use nvh::*;
use renoir::operator::StreamElement;
use renoir::verif::{mux_demux_pair, Coord};

/// `CHANNEL_CAPACITY` of src/network/network_channel.rs (the model takes it from the generated
/// `Consts`; a different value shows up as a disagreement on `rx … none` lines)
const CHANNEL_CAPACITY: usize = 16;

/// how long a message that was sent may take to show up in its channel before it is declared lost
const PATIENCE: Duration = Duration::from_millis(2500);

static RUN: AtomicU64 = AtomicU64::new(0);

fn fmt_coord(c: Coord) -> String {
    format!("{}.{}.{}", c.block_id, c.host_id, c.replica_id)
}

/// Which messages can have reached which channel: frames arrive in send order (one connection);
/// the demux thread blocks on a full channel with the frame in hand.
struct Sim {
    wire: VecDeque<usize>,
    chan: Vec<usize>,
}

impl Sim {
    fn new(n: usize) -> Self {
        Sim { wire: VecDeque::new(), chan: vec![0; n] }
    }
    fn progress(&mut self) {
        while let Some(&k) = self.wire.front() {
            if self.chan[k] < CHANNEL_CAPACITY {
                self.chan[k] += 1;
                self.wire.pop_front();
            } else {
                break;
            }
        }
    }
    fn send(&mut self, k: usize) {
        self.wire.push_back(k);
        self.progress();
    }
    fn recv(&mut self, k: usize) -> bool {
        self.progress();
        if self.chan[k] > 0 {
            self.chan[k] -= 1;
            self.progress();
            true
        } else {
            false
        }
    }
    fn outstanding(&self) -> usize {
        self.wire.len() + self.chan.iter().sum::<usize>()
    }
}

fn rand_val(rng: &mut Rng, depth: u32) -> Val {
    match rng.below(if depth == 0 { 2 } else { 6 }) {
        0 => Val::Int(rng.range(-3, 300)),
        1 => Val::Int(rng.next() as i64),
        2 => Val::Some(Box::new(rand_val(rng, depth - 1))),
        3 => Val::Tup(vec![rand_val(rng, depth - 1), rand_val(rng, depth - 1)]),
        4 => Val::List((0..rng.below(4)).map(|_| rand_val(rng, depth - 1)).collect()),
        _ => Val::None,
    }
}

fn rand_batch(rng: &mut Rng, tag: i64, large_left: &mut u32) -> Vec<String> {
    let len = match rng.below(20) {
        0 | 1 => 0, // empty batch: a frame with a minimal payload
        2 => rng.range(30, 100),
        _ => rng.range(1, 4),
    };
    let mut v: Vec<String> = (0..len)
        .map(|j| match rng.below(10) {
            0 => format!("W:{}", rng.range(0, 1000)),
            1 => "FAR".to_string(),
            2 => "TERM".to_string(),
            3 => "FB".to_string(),
            4 => format!("T:{}:{}", rand_val(rng, 2), rng.range(0, 1000)),
            _ => format!("I:({},{})", tag * 100 + j, rand_val(rng, 1)),
        })
        .collect();
    if *large_left > 0 && rng.chance(1, 25) {
        // payload > 64 KiB: the frame spans several TCP segments / `read` calls
        *large_left -= 1;
        v.push(format!("I:{}", Val::ints((0..9000).map(|_| rng.next() as i64 >> 4))));
    }
    v
}

fn id(rng: &mut Rng, small: u64) -> u64 {
    match rng.below(6) {
        0 => u64::MAX - rng.below(2),
        1 => 1u64 << (8 * rng.range(1, 7)),
        _ => small,
    }
}

fn gen(rng: &mut Rng, i: usize) -> Case {
    let ne = rng.range(1, 4) as usize;
    let ns = rng.range(1, 3) as usize;
    let (block, host, prev) = (id(rng, 1), id(rng, 0), id(rng, 0));
    let mut eps: Vec<u64> = vec![];
    while eps.len() < ne {
        let r = id(rng, eps.len() as u64);
        if !eps.contains(&r) {
            eps.push(r);
        }
    }
    // the senders are the replicas of the previous block on ONE other host: one multiplexer, one connection
    let sh = host.wrapping_add(1 + rng.below(2));
    let snd: Vec<String> = (0..ns).map(|r| format!("{sh}.{r}")).collect();
    let eps_s: Vec<String> = eps.iter().map(|e| e.to_string()).collect();
    let mut c = Case::new(&["mux", &block.to_string(), &host.to_string(), &prev.to_string(), &eps_s.join(","), &snd.join(",")]);
    let mut sim = Sim::new(ne);
    let mut large_left = 2u32;
    let mut tag = (i as i64 % 1000) * 100;
    let send = |c: &mut Case, sim: &mut Sim, rng: &mut Rng, k: usize, tag: &mut i64, large_left: &mut u32| {
        *tag += 1;
        let s = rng.below(ns as u64);
        let mut w = vec!["s".to_string(), s.to_string(), k.to_string()];
        w.extend(rand_batch(rng, *tag, large_left));
        c.ops(w);
        sim.send(k);
    };
    // one endpoint may be left without any message
    let silent = if ne > 1 && rng.chance(1, 3) { Some(rng.below(ne as u64) as usize) } else { None };
    let pick_ep = |rng: &mut Rng| loop {
        let k = rng.below(ne as u64) as usize;
        if Some(k) != silent {
            return k;
        }
    };
    if rng.chance(1, 5) {
        // back-pressure: more than CHANNEL_CAPACITY messages for one endpoint, then messages for the
        // others queue up behind the frame the demux thread cannot deliver (head-of-line blocking)
        let hot = pick_ep(rng);
        for _ in 0..rng.range(17, 26) {
            send(&mut c, &mut sim, rng, hot, &mut tag, &mut large_left);
        }
        for _ in 0..rng.range(1, 5) {
            let k = pick_ep(rng);
            send(&mut c, &mut sim, rng, k, &mut tag, &mut large_left);
        }
        if rng.chance(1, 4) {
            // the consumers are slow: the demux thread stays blocked on the full channel for a while
            c.ops(vec!["w".into(), rng.range(1100, 1600).to_string()]);
        }
        for _ in 0..rng.range(0, 3) {
            let k = rng.below(ne as u64) as usize;
            c.ops(vec!["r".into(), k.to_string()]);
            sim.recv(k);
        }
        for _ in 0..rng.range(2, 12) {
            c.ops(vec!["r".into(), hot.to_string()]);
            sim.recv(hot);
        }
    }
    for _ in 0..rng.range(0, 40) {
        if sim.outstanding() < 30 && rng.chance(3, 5) {
            let k = pick_ep(rng);
            send(&mut c, &mut sim, rng, k, &mut tag, &mut large_left);
        } else {
            // mostly an endpoint that has something, sometimes any
            let ready: Vec<usize> = (0..ne).filter(|&k| sim.chan[k] > 0).collect();
            let k = if !ready.is_empty() && !rng.chance(1, 8) { *rng.pick(&ready) } else { rng.below(ne as u64) as usize };
            c.ops(vec!["r".into(), k.to_string()]);
            sim.recv(k);
        }
    }
    c
}

fn line(tag: &str, k: usize, m: &(Coord, Vec<StreamElement<Val>>)) -> String {
    let mut l = format!("{tag} {k} {}", fmt_coord(m.0));
    for e in &m.1 {
        l.push(' ');
        l.push_str(&fmt_elem(e));
    }
    l
}

fn run_case(c: &Case) -> Vec<String> {
    let block: u64 = c.header[1].parse().unwrap();
    let host: u64 = c.header[2].parse().unwrap();
    let prev: u64 = c.header[3].parse().unwrap();
    let eps: Vec<u64> = c.header[4].split(',').filter(|s| !s.is_empty()).map(|s| s.parse().unwrap()).collect();
    let senders: Vec<Coord> = c.header[5]
        .split(',')
        .filter(|s| !s.is_empty())
        .map(|s| {
            let p: Vec<u64> = s.split('.').map(|x| x.parse().unwrap()).collect();
            Coord::new(prev, p[0], p[1])
        })
        .collect();
    let run = RUN.fetch_add(1, Ordering::SeqCst);
    let pid = std::process::id() as u64;
    let address = (
        format!("127.{}.{}.{}", 1 + pid % 250, 1 + (pid / 250 + run / 200) % 250, 1 + run % 200),
        21000 + ((pid * 11 + run * 17) % 20000) as u16,
    );
    let pair = mux_demux_pair::<Val>((block, host, prev), address, &eps, &senders);
    let (tx, rx, handles) = (pair.senders, pair.receivers, pair.handles);
    let mut sim = Sim::new(eps.len());
    let mut sent = vec![0usize; eps.len()];
    let mut got = vec![0usize; eps.len()];
    let mut out = vec![];
    for op in &c.ops {
        match op[0].as_str() {
            "s" => {
                let (i, k): (usize, usize) = (op[1].parse().unwrap(), op[2].parse().unwrap());
                if i >= senders.len() || k >= eps.len() {
                    continue;
                }
                let batch: Vec<StreamElement<Val>> = op[3..].iter().map(|e| parse_elem(e).expect("bad elem")).collect();
                assert!(tx[i][k].send(batch), "send failed: disconnected");
                sim.send(k);
                sent[k] += 1;
            }
            "r" => {
                let k: usize = op[1].parse().unwrap();
                if k >= eps.len() {
                    continue;
                }
                if sim.recv(k) {
                    // it must arrive: wait for the threads and the socket (ms at most; a message
                    // that has not arrived after PATIENCE is reported as lost)
                    let t0 = Instant::now();
                    loop {
                        if let Some(m) = rx[k].try_recv() {
                            assert_eq!(rx[k].to, Coord::new(block, host, eps[k]));
                            got[k] += 1;
                            out.push(line("rx", k, &m));
                            break;
                        }
                        if t0.elapsed() > PATIENCE {
                            sent[k] -= 1; // do not wait for it again at the end
                            out.push(format!("rx {k} LOST"));
                            break;
                        }
                        std::thread::sleep(Duration::from_micros(200));
                    }
                } else {
                    out.push(format!("rx {k} none"));
                }
            }
            "w" => std::thread::sleep(Duration::from_millis(op[1].parse::<u64>().unwrap().min(3000))),
            _ => {}
        }
    }
    // close: the mux thread flushes and shuts the socket down, the demux thread sees EOF
    drop(tx);
    let mut fin: Vec<Vec<String>> = vec![vec![]; eps.len()];
    let mut idle = Instant::now();
    while (0..eps.len()).any(|k| got[k] < sent[k]) {
        let mut progress = false;
        for k in 0..eps.len() {
            while let Some(m) = rx[k].try_recv() {
                got[k] += 1;
                fin[k].push(line("fin", k, &m));
                progress = true;
            }
        }
        if progress {
            idle = Instant::now();
        } else if idle.elapsed() > PATIENCE {
            for k in 0..eps.len() {
                if got[k] < sent[k] {
                    fin[k].push(format!("lost {k} {}", sent[k] - got[k]));
                }
            }
            break;
        } else {
            std::thread::sleep(Duration::from_micros(200));
        }
    }
    for h in handles {
        h.join().expect("mux/demux thread panicked");
    }
    // both threads are gone: nothing more can arrive
    for k in 0..eps.len() {
        while let Some(m) = rx[k].try_recv() {
            fin[k].push(line("extra", k, &m));
        }
    }
    out.extend(fin.into_iter().flatten());
    out.push("closed".into());
    out
}

fn exec(c: &Case) -> Vec<String> {
    // watchdog: a blocked send / a lost message must not hang the run
    let (done_tx, done_rx) = std::sync::mpsc::channel();
    let c2 = c.clone();
    std::thread::spawn(move || {
        let r = std::panic::catch_unwind(std::panic::AssertUnwindSafe(|| run_case(&c2)));
        let _ = done_tx.send(r);
    });
    match done_rx.recv_timeout(Duration::from_secs(20)) {
        Ok(Ok(v)) => v,
        Ok(Err(e)) => {
            let msg = e.downcast_ref::<String>().cloned().or_else(|| e.downcast_ref::<&str>().map(|s| s.to_string())).unwrap_or_default();
            vec![format!("panic:{}", if msg.contains("timeout") { "timeout".to_string() } else { classify_panic(&msg) })]
        }
        Err(_) => vec!["panic:timeout".into()],
    }
}

fn main() {
    run_main("mux", gen, exec);
}
