//! C14, keyed: the REAL `WindowOperator` with session / processing-time windows through the public API
//! `stream(ClockedScript).key_by(first component).window(SessionWindow::new(gap) | ProcessingTimeWindow::…)
//! .fold(Vec::new(), push)`, chain taken out with `take_ops_keyed` and pulled until `Terminate`.
//!
//! `ClockedScript` is a scripted source defined HERE (public traits `Operator` + `Source` only): every
//! `next()` pops one `(now, element)`, freezes the clock hook at `now` (`renoir::verif::set_clock`, same
//! thread as the managers) and yields the element. One `WindowOperator::next()` may pull several
//! elements (it loops until something is buffered), so the clock has to change *inside* the chain:
//! exactly when the element whose processing reads it is pulled.
//!
//! header: `twop <s|p> <gap or size ns> <slide ns>`; ops: `e <now_ns> <elem>` with payloads `(<key>,<id>)`.
//! output lines: `<i> <elem>` — the operator's output elements in order, `i` = index of the input
//! element whose processing produced it (number of elements pulled from the source − 1; the operator
//! drains its buffer before it pulls again). Results of different keys for ONE control element come in
//! hash-map order: the data lines with equal `i` are stably sorted by key (on both sides), which
//! keeps the order of the results of one key.
use std::collections::VecDeque;
use std::fmt::Display;
use std::sync::atomic::{AtomicUsize, Ordering};
use std::sync::Arc;
use std::time::Duration;

use nvh::*;
use renoir::operator::source::Source;
use renoir::operator::window::{ProcessingTimeWindow, SessionWindow};
use renoir::operator::{Operator, StreamElement};
use renoir::structure::{BlockStructure, OperatorStructure};
use renoir::verif::{set_clock, take_ops_keyed, Coord, FakeNet};
use renoir::{BatchMode, ExecutionMetadata, Replication, StreamContext};

#[derive(Clone)]
struct ClockedScript {
    buffer: VecDeque<(u64, StreamElement<Val>)>,
    pulled: Arc<AtomicUsize>,
}

impl Display for ClockedScript {
    fn fmt(&self, f: &mut std::fmt::Formatter<'_>) -> std::fmt::Result {
        write!(f, "ClockedScript")
    }
}

impl Operator for ClockedScript {
    type Out = Val;
    fn setup(&mut self, _metadata: &mut ExecutionMetadata) {}
    fn next(&mut self) -> StreamElement<Val> {
        self.pulled.fetch_add(1, Ordering::SeqCst);
        match self.buffer.pop_front() {
            Some((now, e)) => {
                set_clock(Some(Duration::from_nanos(now)));
                e
            }
            // script without TERM (shrunk case): Terminate at the last clock reading
            None => StreamElement::Terminate,
        }
    }
    fn structure(&self) -> BlockStructure {
        BlockStructure::default().add_operator(OperatorStructure::new::<Val, _>("ClockedScript"))
    }
}

impl Source for ClockedScript {
    fn replication(&self) -> Replication {
        Replication::One
    }
}

fn key_of(v: &Val) -> Val {
    match v {
        Val::Tup(l) if !l.is_empty() => l[0].clone(),
        v => v.clone(),
    }
}

const MS: u64 = 1_000_000;

/// clock advance before the next pulled element, relative to gap/size `a` and slide `b`
fn delta(rng: &mut Rng, a: u64, b: u64) -> u64 {
    match rng.below(14) {
        0 | 1 | 2 | 3 => 0,
        4 => 1,
        5 => rng.below(a + 1),
        6 => a,
        7 => a + 1,
        8 => a - 1,
        9 => b,
        10 => b * (1 + rng.below(3)),
        11 => a / 2,
        12 => a * (2 + rng.below(5)) + rng.below(a + 1),
        _ => rng.below(a + b + 1),
    }
}

fn gen(rng: &mut Rng, i: usize) -> Case {
    let unit = if rng.chance(1, 5) { 1 } else { MS };
    let a = rng.range(1, 6) as u64;
    let (kind, size, slide) = match rng.below(5) {
        0 | 1 => ("s", a * unit, a * unit),
        2 => ("p", a * unit, a * unit),
        3 => {
            let d: Vec<u64> = (1..=a).filter(|d| a % d == 0).collect();
            ("p", a * unit, *rng.pick(&d) * unit)
        }
        _ => ("p", a * unit, rng.range(1, a as i64) as u64 * unit),
    };
    let mut c = Case::new(&["twop", kind, &size.to_string(), &slide.to_string()]);
    let nkeys = if rng.chance(1, 8) { 1 } else { rng.range(2, 4) };
    // skew: 0 = uniform, 1 = one hot key (the quiet keys' sessions are closed by control elements only)
    let skew = rng.below(2);
    let iters = rng.range(1, 3);
    let mut next = (i as i64 % 1000) * 100;
    let mut now: u64 = if rng.chance(1, 2) { 0 } else { rng.below(10 * size) };
    for _ in 0..iters {
        let len = match rng.below(6) {
            0 => 0,
            1 => rng.range(1, 3),
            _ => rng.range(2, 16),
        };
        let timestamped = rng.chance(1, 3);
        for j in 0..len {
            next += 1;
            now += delta(rng, size, slide);
            let k = if skew == 1 && rng.chance(3, 4) { 0 } else { rng.range(0, nkeys - 1) };
            let v = Val::pair(Val::Int(k), Val::Int(next));
            // event timestamps mean nothing to session / processing-time windows: duplicates, and elements
            // at or below an earlier watermark, must be windowed like any other element
            let ts = if rng.chance(1, 2) { j } else { j / 2 };
            let e = if timestamped { StreamElement::Timestamped(v, ts) } else { StreamElement::Item(v) };
            c.ops(vec!["e".into(), now.to_string(), fmt_elem(&e)]);
            // Watermarks reach every manager (mod.rs:198-218), FlushBatch none (mod.rs:197)
            if rng.chance(1, 6) {
                now += delta(rng, size, slide);
                c.ops(vec!["e".into(), now.to_string(), format!("W:{}", j + rng.range(0, 2))]);
            }
            if rng.chance(1, 12) {
                now += delta(rng, size, slide);
                c.ops(vec!["e".into(), now.to_string(), "FB".into()]);
            }
        }
        now += delta(rng, size, slide);
        c.ops(vec!["e".into(), now.to_string(), "FAR".into()]);
    }
    now += delta(rng, size, slide);
    c.ops(vec!["e".into(), now.to_string(), "TERM".into()]);
    c
}

fn exec(c: &Case) -> Vec<String> {
    let size = Duration::from_nanos(c.header[2].parse().unwrap());
    let slide = Duration::from_nanos(c.header[3].parse().unwrap());
    let script: VecDeque<(u64, StreamElement<Val>)> = c
        .ops
        .iter()
        .filter(|op| op[0] == "e" && op.len() == 3)
        .filter_map(|op| Some((op[1].parse::<u64>().ok()?, parse_elem(&op[2])?)))
        .collect();
    let pulled = Arc::new(AtomicUsize::new(0));
    let src = ClockedScript { buffer: script, pulled: pulled.clone() };
    let me = Coord::new(0, 0, 0);
    let mut net = FakeNet::new(me);
    let ctx = StreamContext::new_local();
    let keyed = ctx.stream(src).key_by(key_of);
    let fold = |v: &mut Vec<Val>, x: Val| v.push(x);
    // (key string, is_data, idx, line)
    let mut lines: Vec<(String, bool, usize, String)> = vec![];
    macro_rules! drive {
        ($st:expr) => {{
            let mut op = take_ops_keyed($st);
            net.with_metadata(vec![me], 0, BatchMode::fixed(1), |m| op.setup(m));
            loop {
                let e = op.next();
                let idx = pulled.load(Ordering::SeqCst) - 1;
                let term = matches!(e, StreamElement::Terminate);
                let (key, is_data) = match &e {
                    StreamElement::Item((k, _)) | StreamElement::Timestamped((k, _), _) => (k.to_string(), true),
                    _ => (String::new(), false),
                };
                let e = e.map(|(k, v)| Val::pair(k, Val::List(v)));
                lines.push((key, is_data, idx, format!("{idx} {}", fmt_elem(&e))));
                if term {
                    break;
                }
            }
        }};
    }
    if c.header[1] == "s" {
        drive!(keyed.window(SessionWindow::new(size)).fold(Vec::new(), fold));
    } else {
        drive!(keyed.window(ProcessingTimeWindow::sliding(size, slide)).fold(Vec::new(), fold));
    }
    set_clock(None);
    // stable sort of the data lines inside one unit by key; the control line of a unit stays last
    lines.sort_by(|a, b| (a.2, !a.1, if a.1 { a.0.as_str() } else { "" }).cmp(&(b.2, !b.1, if b.1 { b.0.as_str() } else { "" })));
    lines.into_iter().map(|l| l.3).collect()
}

fn main() {
    run_main("twop", gen, exec);
}
