//! C08 (interval clause): the real `IntervalJoin` on a scripted source (`renoir::verif::ops::interval_join`).
//! header: `ivjoin <lower> <upper>` (any i64s); ops: `e <elem>` (any i64 timestamps); see lean/Driver/Ivjoin.lean.
use nvh::*;
use renoir::operator::{Operator, StreamElement};
use renoir::verif::ops::{interval_join, Bin};
use renoir::verif::ScriptOp;

const MAX: i64 = i64::MAX;
const MIN: i64 = i64::MIN;
const E18: i64 = 1_000_000_000_000_000_000;

/// bounds: small non-negative (the documented use), small negative, +-10^18, the i64::MIN / i64::MAX
/// neighbourhoods
fn pick_bound(rng: &mut Rng) -> i64 {
    match rng.below(12) {
        0..=4 => *rng.pick(&[0i64, 0, 1, 2, 3, 5, 10]),
        5 | 6 => *rng.pick(&[-1i64, -1, -2, -3, -10]),
        7 => *rng.pick(&[E18, -E18]),
        8 => MAX - rng.range(0, 2),
        9 => MIN + rng.range(0, 2),
        _ => rng.range(-4, 4),
    }
}

/// first timestamp of an iteration: small, negative, next to i64::MAX / i64::MIN, around +-10^18
fn pick_start(rng: &mut Rng) -> i64 {
    match rng.below(10) {
        0..=2 => rng.range(0, 5),
        3 | 4 => rng.range(-12, 0),
        5 | 6 => MAX - rng.range(0, 30),
        7 => MIN + rng.range(0, 5),
        8 => *rng.pick(&[E18, -E18]) + rng.range(-3, 3),
        _ => rng.range(-3, 3),
    }
}

fn gen(rng: &mut Rng, i: usize) -> Case {
    // fixed first cases: the witnesses of the two defects fixed in /repo a398b65 and 928fdec
    if i == 0 {
        // `checked_sub(-1).unwrap_or(MIN)` at i64::MAX opened the interval downwards: spurious pair (1,100)
        let mut c = Case::new(&["ivjoin", "-1", "0"]);
        c.op(&["e", "T:(0,R100):5"]);
        c.ops(vec!["e".into(), format!("T:(0,L1):{MAX}")]);
        c.op(&["e", "FAR"]);
        return c;
    }
    if i == 1 {
        // `last_seen` started at 0: a negative first timestamp tripped `assert!(ts >= self.last_seen)`
        let mut c = Case::new(&["ivjoin", "2", "1"]);
        c.op(&["e", "T:(0,R100):-7"]);
        c.op(&["e", "T:(0,L1):-5"]);
        c.op(&["e", "W:-5"]);
        c.op(&["e", "FAR"]);
        c.op(&["e", "T:(0,L2):-9"]);
        c.op(&["e", "T:(0,R101):-9"]);
        c.op(&["e", "FAR"]);
        return c;
    }
    let lower = pick_bound(rng);
    let upper = pick_bound(rng);
    let mut c = Case::new(&["ivjoin", &lower.to_string(), &upper.to_string()]);
    let malformed = rng.chance(1, 30);
    let iters = rng.range(1, 3);
    let mut v = (i as i64 % 50) * 100;
    for _ in 0..iters {
        let n = rng.range(0, 12);
        let nkeys = *rng.pick(&[1i64, 2, 3]);
        let mut t = pick_start(rng);
        for _ in 0..n {
            // boundary seeking: steps of 0 (ties), exactly |lower| / |upper|, one past, or small; the additions
            // saturate, so a run may end in a plateau at i64::MAX
            let step = match rng.below(7) {
                0 => 0,
                1 => lower.saturating_abs(),
                2 => upper.saturating_abs(),
                3 => upper.saturating_abs().saturating_add(1),
                4 => lower.saturating_abs().saturating_sub(1).max(0),
                _ => rng.range(0, 3),
            };
            t = t.saturating_add(step);
            v += 1;
            let k = rng.range(0, nkeys - 1);
            let side = if rng.chance(1, 2) { "L" } else { "R" };
            if malformed && rng.chance(1, 4) {
                if rng.chance(1, 2) {
                    c.ops(vec!["e".into(), format!("I:({k},{side}{v})")]);
                } else {
                    c.ops(vec!["e".into(), format!("T:({k},{side}{v}):{}", t.saturating_sub(rng.range(1, 3)))]);
                }
            } else {
                c.ops(vec!["e".into(), format!("T:({k},{side}{v}):{t}")]);
            }
            if rng.chance(1, 6) {
                // the same key at the same timestamp on the other side
                v += 1;
                let other = if side == "L" { "R" } else { "L" };
                c.ops(vec!["e".into(), format!("T:({k},{other}{v}):{t}")]);
            }
            if rng.chance(1, 5) {
                let w = t.saturating_add(if rng.chance(1, 2) { 0 } else { rng.range(0, 4) });
                t = w;
                c.ops(vec!["e".into(), format!("W:{w}")]);
            }
            if rng.chance(1, 10) {
                c.op(&["e", "FB"]);
            }
        }
        if !rng.chance(1, 12) {
            c.op(&["e", "FAR"]);
        }
    }
    c
}

fn to_in(e: StreamElement<Val>) -> Option<StreamElement<(i64, Bin<Val, Val>)>> {
    fn conv(v: Val) -> Option<(i64, Bin<Val, Val>)> {
        match v {
            Val::Tup(l) if l.len() == 2 => {
                let k = match &l[0] {
                    Val::Int(k) => *k,
                    _ => return None,
                };
                match &l[1] {
                    Val::Left(x) => Some((k, Bin::Left((**x).clone()))),
                    Val::Right(x) => Some((k, Bin::Right((**x).clone()))),
                    _ => None,
                }
            }
            _ => None,
        }
    }
    Some(match e {
        StreamElement::Item(v) => StreamElement::Item(conv(v)?),
        StreamElement::Timestamped(v, t) => StreamElement::Timestamped(conv(v)?, t),
        StreamElement::Watermark(t) => StreamElement::Watermark(t),
        StreamElement::FlushBatch => StreamElement::FlushBatch,
        StreamElement::FlushAndRestart => StreamElement::FlushAndRestart,
        StreamElement::Terminate => return None,
    })
}

fn exec(c: &Case) -> Vec<String> {
    let lower: i64 = c.header[1].parse().unwrap();
    let upper: i64 = c.header[2].parse().unwrap();
    let script: Vec<_> = c
        .ops
        .iter()
        .filter(|op| op.len() == 2 && op[0] == "e")
        .filter_map(|op| parse_elem(&op[1]).and_then(to_in))
        .collect();
    let mut op = interval_join::<i64, Val, Val, _>(ScriptOp::new(script), lower, upper);
    let mut out = vec![];
    loop {
        let e = op.next();
        let done = matches!(e, StreamElement::Terminate);
        out.push(fmt_elem(&e.map(|(k, (l, r))| Val::pair(Val::Int(k), Val::pair(l, r)))));
        if done || out.len() > 10_000 {
            break;
        }
    }
    out
}

fn main() {
    run_main("ivjoin", gen, exec);
}
