//! C08 (interval clause): the real `IntervalJoin` on a scripted source (`renoir::verif::ops::interval_join`).
//! header: `ivjoin <lower> <upper>`; ops: `e <elem>`; see lean/Driver/Ivjoin.lean.
use nvh::*;
use renoir::operator::{Operator, StreamElement};
use renoir::verif::ops::{interval_join, Bin};
use renoir::verif::ScriptOp;

fn gen(rng: &mut Rng, i: usize) -> Case {
    let lower = *rng.pick(&[0i64, 0, 1, 2, 3, 5, 10]);
    let upper = *rng.pick(&[0i64, 0, 1, 2, 3, 5, 10]);
    let mut c = Case::new(&["ivjoin", &lower.to_string(), &upper.to_string()]);
    let malformed = rng.chance(1, 30);
    let iters = rng.range(1, 3);
    let mut v = (i as i64 % 50) * 100;
    for _ in 0..iters {
        let n = rng.range(0, 12);
        let nkeys = *rng.pick(&[1i64, 2, 3]);
        let mut t = rng.range(0, 5);
        for _ in 0..n {
            // boundary seeking: steps of 0 (ties), exactly lower/upper, or small
            t += match rng.below(6) {
                0 => 0,
                1 => lower,
                2 => upper,
                3 => upper + 1,
                _ => rng.range(0, 3),
            };
            v += 1;
            let k = rng.range(0, nkeys - 1);
            let side = if rng.chance(1, 2) { "L" } else { "R" };
            if malformed && rng.chance(1, 4) {
                if rng.chance(1, 2) {
                    c.ops(vec!["e".into(), format!("I:({k},{side}{v})")]);
                } else {
                    c.ops(vec!["e".into(), format!("T:({k},{side}{v}):{}", t - rng.range(1, 3))]);
                }
            } else {
                c.ops(vec!["e".into(), format!("T:({k},{side}{v}):{t}")]);
            }
            if rng.chance(1, 5) {
                let w = t + if rng.chance(1, 2) { 0 } else { rng.range(0, 4) };
                t = w;
                c.ops(vec!["e".into(), format!("W:{w}")]);
            }
            if rng.chance(1, 10) {
                c.op(&["e", "FB"]);
            }
        }
        if !rng.chance(1, 12) {
            c.op(&["e", "FAR"]);
        }
    }
    c
}

fn to_in(e: StreamElement<Val>) -> Option<StreamElement<(i64, Bin<Val, Val>)>> {
    fn conv(v: Val) -> Option<(i64, Bin<Val, Val>)> {
        match v {
            Val::Tup(l) if l.len() == 2 => {
                let k = match &l[0] {
                    Val::Int(k) => *k,
                    _ => return None,
                };
                match &l[1] {
                    Val::Left(x) => Some((k, Bin::Left((**x).clone()))),
                    Val::Right(x) => Some((k, Bin::Right((**x).clone()))),
                    _ => None,
                }
            }
            _ => None,
        }
    }
    Some(match e {
        StreamElement::Item(v) => StreamElement::Item(conv(v)?),
        StreamElement::Timestamped(v, t) => StreamElement::Timestamped(conv(v)?, t),
        StreamElement::Watermark(t) => StreamElement::Watermark(t),
        StreamElement::FlushBatch => StreamElement::FlushBatch,
        StreamElement::FlushAndRestart => StreamElement::FlushAndRestart,
        StreamElement::Terminate => return None,
    })
}

fn exec(c: &Case) -> Vec<String> {
    let lower: i64 = c.header[1].parse().unwrap();
    let upper: i64 = c.header[2].parse().unwrap();
    let script: Vec<_> = c
        .ops
        .iter()
        .filter(|op| op.len() == 2 && op[0] == "e")
        .filter_map(|op| parse_elem(&op[1]).and_then(to_in))
        .collect();
    let mut op = interval_join::<i64, Val, Val, _>(ScriptOp::new(script), lower, upper);
    let mut out = vec![];
    loop {
        let e = op.next();
        let done = matches!(e, StreamElement::Terminate);
        out.push(fmt_elem(&e.map(|(k, (l, r))| Val::pair(Val::Int(k), Val::pair(l, r)))));
        if done || out.len() > 10_000 {
            break;
        }
    }
    out
}

fn main() {
    run_main("ivjoin", gen, exec);
}
