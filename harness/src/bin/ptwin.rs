//! C14 (processing-time windows): the real `ProcessingTimeWindowManager` (public API:
//! `ProcessingTimeWindow::tumbling/sliding(..).build(acc)`), driven element by element with a collecting
//! accumulator. The wall clock read by the manager is frozen with `renoir::verif::set_clock` before
//! every `process` call at the offset written in the op line (`e <now_ns> <elem>`).
use std::time::Duration;

use nvh::*;
use renoir::operator::window::{
    ProcessingTimeWindow, WindowAccumulator, WindowDescription, WindowManager, WindowResult,
};
use renoir::operator::StreamElement;

#[derive(Clone, Default)]
struct Collect(Vec<Val>);
impl WindowAccumulator for Collect {
    type In = Val;
    type Out = Val;
    fn process(&mut self, el: Val) {
        self.0.push(el)
    }
    fn output(self) -> Val {
        Val::List(self.0)
    }
}

const MS: u64 = 1_000_000;

/// clock advance before the next `process` call, relative to size / slide (boundary seeking)
fn delta(rng: &mut Rng, size: u64, slide: u64) -> u64 {
    match rng.below(16) {
        0 | 1 | 2 => 0,                                         // burst
        3 => 1,
        4 => rng.below(slide + 1),
        5 => slide,                                             // next window start
        6 => slide * (1 + rng.below(4)),                        // exactly on a later window start
        7 => size,                                              // exactly the window end
        8 => size - 1,
        9 => size + 1,
        10 => slide.saturating_sub(1),
        11 => slide + 1,
        12 => size * (2 + rng.below(4)) + rng.below(size + 1),  // pause longer than several windows
        13 => slide * (5 + rng.below(20)),                      // long pause, aligned
        _ => rng.below(size + slide + 1),
    }
}

fn gen(rng: &mut Rng, i: usize) -> Case {
    if rng.chance(1, 60) {
        // malformed: the constructors assert non-zero durations
        let (sz, sl, ctor) = *rng.pick(&[("0", "0", "t"), ("0", "5", "s"), ("5", "0", "s"), ("0", "0", "s")]);
        let mut c = Case::new(&["ptwin", sz, sl, ctor]);
        c.op(&["e", "0", "I:1"]);
        return c;
    }
    let unit = if rng.chance(1, 5) { 1 } else { MS };
    let a = rng.range(1, 8) as u64;
    let (size, slide, ctor) = match rng.below(10) {
        0 | 1 => (a * unit, a * unit, "t"),
        2 => (a * unit, a * unit, "s"),
        3 | 4 | 5 => {
            // slide | size, slide < size when possible
            let d: Vec<u64> = (1..=a).filter(|d| a % d == 0 && (*d < a || a == 1)).collect();
            (a * unit, *rng.pick(&d) * unit, "s")
        }
        6 | 7 | 8 => (a * unit, rng.range(1, (a as i64 - 1).max(1)) as u64 * unit, "s"),
        _ => (a * unit, (a + rng.range(1, 3) as u64) * unit, "s"), // slide > size: outside C14's quantifier
    };
    let mut c = Case::new(&["ptwin", &size.to_string(), &slide.to_string(), ctor]);
    let iters = rng.range(1, 3);
    let mut next = (i as i64) * 1000;
    let mut now: u64 = if rng.chance(1, 2) { 0 } else { rng.below(10 * size) };
    for _ in 0..iters {
        let len = match rng.below(6) {
            0 => 0,
            1 => 1,
            _ => rng.range(0, 14),
        };
        let timestamped = rng.chance(1, 4);
        for k in 0..len {
            next += 1;
            now += delta(rng, size, slide);
            let e = if timestamped {
                StreamElement::Timestamped(Val::Int(next), k)
            } else {
                StreamElement::Item(Val::Int(next))
            };
            c.ops(vec!["e".into(), now.to_string(), fmt_elem(&e)]);
            // noise: FlushBatch / Watermark close the windows that ended before their clock reading
            if rng.chance(1, 8) {
                now += delta(rng, size, slide);
                c.ops(vec!["e".into(), now.to_string(), "FB".into()]);
            }
            if timestamped && rng.chance(1, 8) {
                now += delta(rng, size, slide);
                c.ops(vec!["e".into(), now.to_string(), format!("W:{k}")]);
            }
        }
        now += delta(rng, size, slide);
        c.ops(vec!["e".into(), now.to_string(), "FAR".into()]);
    }
    now += delta(rng, size, slide);
    c.ops(vec!["e".into(), now.to_string(), "TERM".into()]);
    c
}

fn exec(c: &Case) -> Vec<String> {
    let size: u64 = c.header[1].parse().unwrap();
    let slide: u64 = c.header[2].parse().unwrap();
    let descr = if c.header[3] == "t" {
        ProcessingTimeWindow::tumbling(Duration::from_nanos(size))
    } else {
        ProcessingTimeWindow::sliding(Duration::from_nanos(size), Duration::from_nanos(slide))
    };
    let mut mgr = descr.build(Collect::default());
    let mut out = vec![];
    let mut idx = 0usize;
    for op in &c.ops {
        if op[0] != "e" || op.len() != 3 {
            continue;
        }
        // unparsable lines are skipped (as in the driver's `parseOps`)
        let (Ok(now), Some(e)) = (op[1].parse::<u64>(), parse_elem(&op[2])) else { continue };
        renoir::verif::set_clock(Some(Duration::from_nanos(now)));
        for r in mgr.process(e) {
            let e = match r {
                WindowResult::Item(v) => StreamElement::Item(v),
                WindowResult::Timestamped(v, t) => StreamElement::Timestamped(v, t),
            };
            out.push(format!("{idx} {}", fmt_elem(&e)));
        }
        idx += 1;
    }
    renoir::verif::set_clock(None);
    out
}

fn main() {
    run_main("ptwin", gen, exec);
}
