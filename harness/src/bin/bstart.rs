//! C11 / C05 (binary start) / C09 (merge): the real `Start<BinaryStartReceiver>` (with and without a
//! cached side), fed by harness-owned channels.
//!
//! header: `bstart <nL> <nR> <N|L|R>` (replicas per side, which side is cached)
//! ops:    `b <L|R> <replica> <elems…>`  send one batch on that side, then pull `next()` until the
//!                                       timeout-generated `FlushBatch` (not printed) or `Terminate`
//!         `q <L|R> <replica> <elems…>`  send one batch, do not pull (the batch stays queued)
//! outputs: `<op index> <elem>`; `<op index> blocked` if a pull never returns (watchdog).
//!
//! After the timeout `FlushBatch` the `Start` receives WITHOUT a timeout, so a `b` whose batch is on
//! a side the receiver does not listen to blocks for ever; the generator simulates the coarse
//! protocol and emits `q` for such batches (Terminates of a side that ended its iteration while the
//! other side has not). `q` is also used to put the first batch of the next round into the channel
//! before the current round ends ("fast loop": no receive timeout at the round boundary), and — in a small
//! share of cases — to make a `select` over both channels find both non-empty (unspecified choice).
use std::sync::atomic::{AtomicUsize, Ordering};
use std::sync::{mpsc, Arc, Mutex};
use std::time::Duration;

use nvh::*;
use renoir::operator::{Operator, StreamElement};
use renoir::verif::ops::{self, Bin};
use renoir::verif::{Coord, FakeNet, FakeSender};
use renoir::BatchMode;

type OpLine = (bool, char, usize, Vec<String>); // (pump?, side, replica, elems)

struct G<'a> {
    rng: &'a mut Rng,
    val: i64,
    timestamped: bool,
    /// per (side, replica): last timestamp used on the link
    t: [[i64; 3]; 2],
}

impl G<'_> {
    /// data batches of one replica for one round; `class`: 0 = none, 1 = one batch, 2 = many
    fn data(&mut self, side: usize, r: usize, class: u64) -> Vec<Vec<String>> {
        let nb = match class {
            0 => 0,
            1 => 1,
            _ => self.rng.range(2, 3),
        };
        let mut out = vec![];
        for _ in 0..nb {
            let len = if self.rng.chance(1, 2) { 1 } else { self.rng.range(1, 3) };
            let mut b = vec![];
            for _ in 0..len {
                self.val += 1;
                if self.timestamped {
                    self.t[side][r] += self.rng.range(1, 3);
                    if self.rng.chance(1, 4) {
                        b.push(format!("W:{}", self.t[side][r]));
                    } else {
                        b.push(format!("T:{}:{}", self.val, self.t[side][r]));
                    }
                } else {
                    b.push(format!("I:{}", self.val));
                }
            }
            out.push(b);
        }
        out
    }

    /// append `tail` markers: each either to the last batch or as a batch of its own
    fn close(&mut self, mut batches: Vec<Vec<String>>, tail: &[&str], same_batch: &[bool]) -> Vec<Vec<String>> {
        for (m, same) in tail.iter().zip(same_batch) {
            if *same && !batches.is_empty() {
                batches.last_mut().unwrap().push(m.to_string());
            } else {
                batches.push(vec![m.to_string()]);
            }
        }
        batches
    }

    fn size_class(&mut self) -> u64 {
        match self.rng.below(4) {
            0 => 0,
            1 => 1,
            _ => 2,
        }
    }

    /// merge per-link batch lists preserving each link's order; `how`: 0 = first group first,
    /// 1 = second group first, 2 = random
    fn merge(&mut self, links: Vec<(char, usize, Vec<Vec<String>>)>, how: u64, first: char) -> Vec<(char, usize, Vec<String>)> {
        let mut pos = vec![0usize; links.len()];
        let mut out = vec![];
        loop {
            let mut avail: Vec<usize> = (0..links.len()).filter(|&i| pos[i] < links[i].2.len()).collect();
            if avail.is_empty() {
                break;
            }
            if how < 2 {
                let want = if how == 0 { first } else if first == 'L' { 'R' } else { 'L' };
                let pref: Vec<usize> = avail.iter().cloned().filter(|&i| links[i].0 == want).collect();
                if !pref.is_empty() {
                    avail = pref;
                }
            }
            let i = *self.rng.pick(&avail);
            out.push((links[i].0, links[i].1, links[i].2[pos[i]].clone()));
            pos[i] += 1;
        }
        out
    }
}

fn perm(rng: &mut Rng, n: usize) -> Vec<usize> {
    let mut order: Vec<usize> = (0..n).collect();
    for i in (1..n).rev() {
        let j = rng.below(i as u64 + 1) as usize;
        order.swap(i, j);
    }
    order
}

fn fixed(header: &[&str], ops: &[&str]) -> Case {
    let mut c = Case::new(header);
    for o in ops {
        c.ops(o.split_whitespace().map(|s| s.to_string()).collect());
    }
    c
}

fn gen(rng: &mut Rng, i: usize) -> Case {
    // the witnesses of the former findings F6 / F6b (now fixed: examples in Props/C11.lean), replayed on
    // the real code as the first cases of every run
    match i {
        0 => {
            return fixed(
                &["bstart", "1", "2", "L"],
                &["b L 0 I:41 FAR TERM", "b R 0 FAR", "q R 1 FAR", "b R 0 TERM", "b R 1 TERM"],
            )
        }
        1 => return fixed(&["bstart", "1", "1", "L"], &["b L 0 I:41 FAR TERM", "b R 0 FAR", "b R 0 TERM"]),
        2 => {
            return fixed(
                &["bstart", "2", "1", "R"],
                &["b R 0 I:41 FAR TERM", "b L 0 FAR", "q L 1 FAR", "b L 0 TERM", "b L 1 TERM"],
            )
        }
        3 => return fixed(&["bstart", "1", "1", "L"], &["b L 0 I:41 FAR TERM", "q R 0 FAR", "b R 0 TERM"]),
        _ => {}
    }
    let mode = match rng.below(5) {
        0 | 1 => 'L',
        2 | 3 => 'R',
        _ => 'N',
    };
    let n_of = |rng: &mut Rng| match rng.below(4) {
        0 => 1usize,
        1 | 2 => 2,
        _ => 3,
    };
    let n_l = n_of(rng);
    let n_r = n_of(rng);
    let timestamped = rng.chance(1, 5);
    let mut g = G { rng, val: 0, timestamped, t: [[0; 3]; 2] };
    let mut c = Case::new(&["bstart", &n_l.to_string(), &n_r.to_string(), &mode.to_string()]);
    let mut lines: Vec<OpLine> = vec![];
    let n_side = |s: char| if s == 'L' { n_l } else { n_r };
    let idx = |s: char| if s == 'L' { 0usize } else { 1 };

    if mode == 'N' {
        // plain binary merge: 1-3 iterations on both sides
        let iters = g.rng.range(1, 3);
        for it in 0..iters {
            let last = it + 1 == iters;
            let mut links = vec![];
            let mut term_sep: Vec<(char, usize)> = vec![];
            for s in ['L', 'R'] {
                for r in 0..n_side(s) {
                    let cl = g.size_class();
                    let d = g.data(idx(s), r, cl);
                    let far_same = g.rng.chance(1, 2);
                    let term_same = last && g.rng.chance(1, 4);
                    let b = if term_same {
                        g.close(d, &["FAR", "TERM"], &[far_same, true])
                    } else {
                        if last {
                            term_sep.push((s, r));
                        }
                        g.close(d, &["FAR"], &[far_same])
                    };
                    links.push((s, r, b));
                }
            }
            let how = g.rng.below(4).min(2);
            let mut merged = g.merge(links, how, 'L');
            if last {
                // separate Terminate batches: anywhere after the replica's FlushAndRestart
                let order = perm(g.rng, term_sep.len());
                let drop_last = g.rng.chance(1, 10);
                for (k, &j) in order.iter().enumerate() {
                    if drop_last && k + 1 == order.len() {
                        break;
                    }
                    let (s, r) = term_sep[j];
                    let far_pos = merged
                        .iter()
                        .position(|(s2, r2, e)| *s2 == s && *r2 == r && e.iter().any(|x| x == "FAR"))
                        .unwrap();
                    // after the FAR and after every Terminate already placed (keeps the chosen order)
                    let lo = merged
                        .iter()
                        .rposition(|(_, _, e)| e.len() == 1 && e[0] == "TERM")
                        .map(|p| p.max(far_pos))
                        .unwrap_or(far_pos)
                        + 1;
                    let at = if g.rng.chance(1, 2) { merged.len() } else { g.rng.range(lo as i64, merged.len() as i64) as usize };
                    merged.insert(at, (s, r, vec!["TERM".into()]));
                }
            }
            // simulate the coarse protocol: a lone Terminate of a side that has ended the iteration
            // while the other side has not is refused (stays queued)
            let mut fars = [0usize; 2];
            for (s, r, e) in merged {
                let me = idx(s);
                let lone_term = e.len() == 1 && e[0] == "TERM";
                let refused = lone_term && fars[me] == n_side(s) && fars[1 - me] < n_side(if s == 'L' { 'R' } else { 'L' });
                if !refused {
                    fars[me] += e.iter().filter(|x| *x == "FAR").count();
                    if fars[0] == n_l && fars[1] == n_r {
                        fars = [0, 0];
                    }
                }
                lines.push((!refused, s, r, e));
            }
        }
    } else {
        let cs = mode; // cached side
        let ls = if mode == 'L' { 'R' } else { 'L' }; // loop side
        let rounds = g.rng.range(1, 4);
        // per loop-side replica: Terminate in the same batch as the last FlushAndRestart? (outside the
        // input contract: `End` flushes at FlushAndRestart; kept, rarely, for the correspondence check)
        let term_same: Vec<bool> = (0..n_side(ls)).map(|_| false).collect::<Vec<_>>();
        let term_same: Vec<bool> = if g.rng.chance(1, 16) {
            term_same.iter().map(|_| g.rng.chance(1, 2)).collect()
        } else {
            term_same
        };
        let cclass = g.size_class();
        let mut per_round: Vec<Vec<(char, usize, Vec<String>)>> = vec![];
        for round in 0..rounds {
            let last = round + 1 == rounds;
            let mut links = vec![];
            if round == 0 {
                for r in 0..n_side(cs) {
                    let cl = if g.rng.chance(2, 3) { cclass } else { g.size_class() };
                    let d = g.data(idx(cs), r, cl);
                    let far_same = g.rng.chance(1, 2);
                    let t_same = g.rng.chance(1, 2);
                    links.push((cs, r, g.close(d, &["FAR", "TERM"], &[far_same, t_same])));
                }
            }
            for r in 0..n_side(ls) {
                let cl = g.size_class();
                let d = g.data(idx(ls), r, cl);
                let far_same = g.rng.chance(1, 2);
                let b = if last && term_same[r] {
                    g.close(d, &["FAR", "TERM"], &[far_same, true])
                } else {
                    g.close(d, &["FAR"], &[far_same])
                };
                links.push((ls, r, b));
            }
            let how = g.rng.below(4).min(2);
            per_round.push(g.merge(links, how, cs));
        }
        // Terminates of the loop side: one batch per replica, every order
        let mut terms = vec![];
        let order = perm(g.rng, n_side(ls));
        let drop_last = g.rng.chance(1, 10);
        for (k, &r) in order.iter().enumerate() {
            if term_same[r] || (drop_last && k + 1 == order.len()) {
                continue;
            }
            terms.push((ls, r, vec!["TERM".to_string()]));
        }
        per_round.push(terms);
        // round boundaries: slow (receive timeout between the rounds) or fast (the next loop-side
        // batch is already in the channel when the round ends)
        let nseg = per_round.len();
        for k in 0..nseg {
            let fast = k + 1 < nseg && !per_round[k + 1].is_empty() && g.rng.chance(1, 2);
            let len = per_round[k].len();
            for (j, (s, r, e)) in per_round[k].iter().cloned().enumerate() {
                // only the last batch of a proper round may be left queued
                let q = fast && j + 1 == len && k + 1 < nseg;
                lines.push((!q, s, r, e));
            }
        }
    }

    // a small share of cases where a `select` over BOTH channels finds both non-empty (which one it takes is
    // unspecified; the driver looks for the resolution the implementation took): at the very start, when
    // both sides are listened to, leave the first batch queued if the second one goes to the other side
    if g.rng.chance(1, 10) && lines.len() >= 2 && lines[0].0 && lines[1].0 && lines[0].1 != lines[1].1 {
        lines[0].0 = false;
    }

    // rare malformed variants: a pull that blocks, a counter underflow
    match g.rng.below(300) {
        0 | 1 => {
            // a refused batch followed by a pull: `blocked` (or a queued batch turned into a pull)
            if let Some(p) = lines.iter().position(|l| !l.0) {
                lines[p].0 = true;
            } else if mode != 'N' {
                let s = mode;
                lines.push((true, s, 0, vec!["I:900".into()]));
                lines.push((true, s, 0, vec!["I:901".into()]));
            }
        }
        2 => {
            // one FlushAndRestart too many on the left side
            let at = g.rng.below(lines.len() as u64 + 1) as usize;
            for _ in 0..=n_l {
                lines.insert(at.min(lines.len()), (true, 'L', 0, vec!["FAR".into()]));
            }
        }
        _ => {}
    }
    // the channels hold 16 batches: never leave more than 12 batches queued in a case
    let mut nq = 0;
    for (pump, s, r, e) in lines {
        let pump = pump || nq >= 12;
        if !pump {
            nq += 1;
        }
        let mut w = vec![if pump { "b".to_string() } else { "q".to_string() }, s.to_string(), r.to_string()];
        w.extend(e);
        c.ops(w);
    }
    c
}

fn to_val(b: Bin<Val, Val>) -> Val {
    match b {
        Bin::Left(v) => Val::Left(Box::new(v)),
        Bin::Right(v) => Val::Right(Box::new(v)),
        Bin::LeftEnd => Val::LeftEnd,
        Bin::RightEnd => Val::RightEnd,
    }
}

struct Shared {
    out: Mutex<Vec<String>>,
    cur: AtomicUsize,
}

fn run_case(c: &Case, sh: &Shared) {
    let n_l: u64 = c.header[1].parse().unwrap();
    let n_r: u64 = c.header[2].parse().unwrap();
    let (lc, rc) = match c.header[3].as_str() {
        "L" => (true, false),
        "R" => (false, true),
        _ => (false, false),
    };
    let me = Coord::new(0, 0, 0);
    let mut net = FakeNet::new(me);
    let left: Vec<FakeSender<Val>> = (0..n_l).map(|r| net.add_prev::<Val>(Coord::new(1, 0, r))).collect();
    let right: Vec<FakeSender<Val>> = (0..n_r).map(|r| net.add_prev::<Val>(Coord::new(2, 0, r))).collect();
    let mut op = ops::start_binary::<Val, Val>(1, 2, lc, rc);
    net.with_metadata(vec![me], 0, BatchMode::adaptive(1000, Duration::from_millis(1)), |m| op.setup(m));
    for (i, w) in c.ops.iter().enumerate() {
        if w.len() < 3 || (w[0] != "b" && w[0] != "q") {
            continue;
        }
        let side = if w[1] == "L" { &left } else { &right };
        let r: usize = match w[2].parse() {
            Ok(r) => r,
            Err(_) => continue,
        };
        if r >= side.len() {
            continue;
        }
        let batch: Vec<StreamElement<Val>> = w[3..].iter().filter_map(|s| parse_elem(s)).collect();
        if batch.is_empty() {
            continue;
        }
        sh.cur.store(i, Ordering::SeqCst);
        side[r].send(batch);
        if w[0] == "q" {
            continue;
        }
        loop {
            match op.next() {
                StreamElement::Terminate => {
                    sh.out.lock().unwrap().push(format!("{i} TERM"));
                    return;
                }
                StreamElement::FlushBatch => break, // timeout marker of the protocol
                e => sh.out.lock().unwrap().push(format!("{i} {}", fmt_elem(&e.map(to_val)))),
            }
        }
    }
}

fn exec(c: &Case) -> Vec<String> {
    let sh = Arc::new(Shared { out: Mutex::new(vec![]), cur: AtomicUsize::new(0) });
    let (tx, rx) = mpsc::channel();
    let c2 = c.clone();
    let sh2 = sh.clone();
    let h = std::thread::spawn(move || {
        let r = std::panic::catch_unwind(std::panic::AssertUnwindSafe(|| run_case(&c2, &sh2)));
        let _ = tx.send(());
        if let Err(e) = r {
            std::panic::resume_unwind(e);
        }
    });
    match rx.recv_timeout(Duration::from_secs(5 * nvh::load_factor() as u64)) {
        Ok(()) => {
            if let Err(e) = h.join() {
                std::panic::resume_unwind(e); // becomes `panic:<class>` in `guarded`
            }
            let out = sh.out.lock().unwrap().clone();
            out
        }
        Err(_) => {
            // the operator thread is stuck in a receive without timeout; it is leaked
            let mut out = sh.out.lock().unwrap().clone();
            out.push(format!("{} blocked", sh.cur.load(Ordering::SeqCst)));
            out
        }
    }
}

fn main() {
    run_main("bstart", gen, exec);
}
