//! C09 (whole engine): real jobs built with the public API on `StreamContext::new(RuntimeConfig::local(par))`
//! exercising `split`, `route`, `merge`, `broadcast`, `zip` and their combinations with shuffles (diamonds,
//! one branch deliberately slow). Every engine run happens on its own thread under a 20 s watchdog.
//!
//! header: `fanout <job> <par> <params…>`; the single op line `run` (without it nothing is executed).
//!   split   <par> <n> <src> <k>         `src.split(k)`, branch i: `map(x*10+i)` + own sink
//!   route   <par> <n> <src> <p1,p2,..>  `src.route().add_route(p1)…build()`, one sink per route
//!   merge   <par> <n> <src> <m>         stream j = `j*1000 + (0..n+j)`, `s0.merge(s1)[.merge(s2)]`
//!   bcast   <par> <n> <src>             `src.broadcast().map(|x| (x, replica id of the worker))`
//!   diamond <par> <n> <src> <slow>      `src.split(2)`: a = `shuffle().map(x+1000000)`, b = `map(x)`; branch
//!                                       `slow` (0 = a, 1 = b) sleeps 200 µs per element; `a.merge(b)`
//!   combo   <par> <n> <src> <slow>      `src.split(2)`: a = `shuffle().route(div2 | always)`, route 0 `map(x+1000000)`
//!                                       merged with route 1 `map(x+2000000)`; b = `broadcast().map(x+3000000)`;
//!                                       `a.merge(b)`
//!   zipseq  <par> <n1> <n2>             `stream_iter(0..n1).zip(stream_iter(1000..1000+n2))` (exact order)
//!   zippar  <par> <n1> <n2>             `stream_par_iter(0..n1).shuffle().zip(stream_par_iter(1000..1000+n2).shuffle())`
//!   src: 0 = `stream_iter(0..n)`, 1 = `stream_par_iter(0..n)`, 2 = `stream_iter(0..n).shuffle()`
//! outputs: `sink <i> [sorted elements]` (zipseq: in output order); zippar (the matching is not determined):
//!   `zippar pairs=<#> distinctL=<#distinct left> distinctR=<#distinct right> badL=<#left not in input> badR=<…>`;
//!   `blocked` / `panic:<class>`.
use std::panic::{catch_unwind, AssertUnwindSafe};
use std::sync::mpsc;
use std::time::Duration;

use nvh::*;
use renoir::prelude::*;

type Getter = Box<dyn FnOnce() -> Vec<Val> + Send>;

fn p_div2(v: &i64) -> bool {
    v % 2 == 0
}
fn p_div3(v: &i64) -> bool {
    v % 3 == 0
}
fn p_div5(v: &i64) -> bool {
    v % 5 == 0
}
fn p_odd(v: &i64) -> bool {
    v % 2 != 0
}
fn p_lt0(v: &i64) -> bool {
    *v < 0
}
fn p_lt5(v: &i64) -> bool {
    *v < 5
}
fn p_lt10(v: &i64) -> bool {
    *v < 10
}
fn p_ge5(v: &i64) -> bool {
    *v >= 5
}
fn p_always(_: &i64) -> bool {
    true
}
fn p_never(_: &i64) -> bool {
    false
}

const PREDS: &[&str] = &["div2", "div3", "div5", "odd", "lt5", "lt10", "ge5", "always", "never"];

/// the same library of named predicates as the `route` component (lean/Driver/Route.lean `predOf`)
fn pred_of(name: &str) -> fn(&i64) -> bool {
    match name {
        "div2" => p_div2,
        "div3" => p_div3,
        "div5" => p_div5,
        "odd" => p_odd,
        "lt0" => p_lt0,
        "lt5" => p_lt5,
        "lt10" => p_lt10,
        "ge5" => p_ge5,
        "always" => p_always,
        _ => p_never,
    }
}

fn ints(o: renoir::operator::sink::StreamOutput<Vec<i64>>) -> Getter {
    Box::new(move || o.get().unwrap_or_default().into_iter().map(Val::Int).collect())
}

fn pairs(o: renoir::operator::sink::StreamOutput<Vec<(i64, i64)>>) -> Getter {
    Box::new(move || {
        o.get()
            .unwrap_or_default()
            .into_iter()
            .map(|(a, b)| Val::pair(Val::Int(a), Val::Int(b)))
            .collect()
    })
}

fn replica_id() -> i64 {
    renoir::verif::replica_coord().map(|c| c.replica_id as i64).unwrap_or(-1)
}

fn nap(on: bool) {
    if on {
        std::thread::sleep(Duration::from_micros(200));
    }
}

macro_rules! with_src {
    ($ctx:expr, $kind:expr, $range:expr, $s:ident => $body:expr) => {
        match $kind {
            0 => {
                let $s = $ctx.stream_iter($range);
                $body
            }
            1 => {
                let $s = $ctx.stream_par_iter($range);
                $body
            }
            _ => {
                let $s = $ctx.stream_iter($range).shuffle();
                $body
            }
        }
    };
}

fn build(ctx: &StreamContext, h: &[String]) -> Vec<Getter> {
    let job = h[1].as_str();
    let p = |i: usize| -> i64 { h.get(i).and_then(|s| s.parse().ok()).unwrap_or(0) };
    match job {
        "split" => {
            let (n, src, k) = (p(3), p(4), p(5).clamp(1, 6) as usize);
            with_src!(ctx, src, 0..n, s => {
                s.split(k)
                    .into_iter()
                    .enumerate()
                    .map(|(i, b)| ints(b.map(move |x| x * 10 + i as i64).collect_vec()))
                    .collect()
            })
        }
        "route" => {
            let (n, src) = (p(3), p(4));
            let names: Vec<&str> = h.get(5).map(|s| s.split(',').collect()).unwrap_or_default();
            with_src!(ctx, src, 0..n, s => {
                let mut rb = s.route();
                for nm in &names {
                    rb = rb.add_route(pred_of(nm));
                }
                rb.build().into_iter().map(|b| ints(b.collect_vec())).collect()
            })
        }
        "merge" => {
            let (n, src, m) = (p(3), p(4), p(5));
            // `with_src!` yields a different type per source kind, so the job is spelled out per kind
            match (src, m) {
                (0, 2) => vec![ints(ctx.stream_iter(0..n).merge(ctx.stream_iter(1000..(1000 + n + 1))).collect_vec())],
                (0, _) => vec![ints(
                    ctx.stream_iter(0..n)
                        .merge(ctx.stream_iter(1000..(1000 + n + 1)))
                        .merge(ctx.stream_iter(2000..(2000 + n + 2)))
                        .collect_vec(),
                )],
                (1, 2) => {
                    vec![ints(ctx.stream_par_iter(0..n).merge(ctx.stream_par_iter(1000..(1000 + n + 1))).collect_vec())]
                }
                (1, _) => vec![ints(
                    ctx.stream_par_iter(0..n)
                        .merge(ctx.stream_par_iter(1000..(1000 + n + 1)))
                        .merge(ctx.stream_par_iter(2000..(2000 + n + 2)))
                        .collect_vec(),
                )],
                (_, 2) => vec![ints(
                    ctx.stream_iter(0..n).shuffle().merge(ctx.stream_iter(1000..(1000 + n + 1)).shuffle()).collect_vec(),
                )],
                (_, _) => vec![ints(
                    ctx.stream_iter(0..n)
                        .shuffle()
                        .merge(ctx.stream_iter(1000..(1000 + n + 1)).shuffle())
                        .merge(ctx.stream_iter(2000..(2000 + n + 2)).shuffle())
                        .collect_vec(),
                )],
            }
        }
        "bcast" => {
            let (n, src) = (p(3), p(4));
            with_src!(ctx, src, 0..n, s => {
                vec![pairs(s.broadcast().map(|x| (x, replica_id())).collect_vec())]
            })
        }
        "diamond" => {
            let (n, src, slow) = (p(3), p(4), p(5));
            // both inputs of `merge` must have the same replication: a source with one replica is shuffled first
            macro_rules! go {
                ($s:expr) => {{
                    let mut parts = $s.split(2).into_iter();
                    let a = parts.next().unwrap().shuffle().map(move |x| {
                        nap(slow == 0);
                        x + 1_000_000
                    });
                    let b = parts.next().unwrap().map(move |x| {
                        nap(slow == 1);
                        x
                    });
                    vec![ints(a.merge(b).collect_vec())]
                }};
            }
            match src {
                1 => go!(ctx.stream_par_iter(0..n)),
                _ => go!(ctx.stream_iter(0..n).shuffle()),
            }
        }
        "combo" => {
            let (n, src, slow) = (p(3), p(4), p(5));
            macro_rules! go {
                ($s:expr) => {{
                    let mut parts = $s.split(2).into_iter();
                    let mut routes = parts
                        .next()
                        .unwrap()
                        .shuffle()
                        .route()
                        .add_route(p_div2)
                        .add_route(p_always)
                        .build()
                        .into_iter();
                    let r0 = routes.next().unwrap().map(move |x| {
                        nap(slow == 0);
                        x + 1_000_000
                    });
                    let r1 = routes.next().unwrap().map(|x| x + 2_000_000);
                    let a = r0.merge(r1);
                    let b = parts.next().unwrap().broadcast().map(move |x| {
                        nap(slow == 1);
                        x + 3_000_000
                    });
                    vec![ints(a.merge(b).collect_vec())]
                }};
            }
            match src {
                1 => go!(ctx.stream_par_iter(0..n)),
                _ => go!(ctx.stream_iter(0..n).shuffle()),
            }
        }
        "zipseq" => {
            let (n1, n2) = (p(3), p(4));
            vec![pairs(ctx.stream_iter(0..n1).zip(ctx.stream_iter(1000..(1000 + n2))).collect_vec())]
        }
        "zippar" => {
            let (n1, n2) = (p(3), p(4));
            vec![pairs(
                ctx.stream_par_iter(0..n1)
                    .shuffle()
                    .zip(ctx.stream_par_iter(1000..(1000 + n2)).shuffle())
                    .collect_vec(),
            )]
        }
        "ziplim" => {
            // both zip inputs limited to `lim` replicas (`.replication(Limited(lim))`); the zip block must
            // still be a single replica. `skew` = 1: the whole right input is produced by source replica 0
            let (n1, n2, lim, skew) = (p(3), p(4), p(5).max(1) as u64, p(6));
            let left = ctx.stream_par_iter(0..n1).replication(renoir::Replication::new_limited(lim));
            let right = ctx
                .stream_par_iter(move |id, instances| {
                    if skew == 1 {
                        if id == 0 { 1000..(1000 + n2) } else { 0..0 }
                    } else {
                        let (id, instances) = (id as i64, instances as i64);
                        let chunk = (n2 + instances - 1) / instances.max(1);
                        (1000 + (id * chunk).min(n2))..(1000 + ((id + 1) * chunk).min(n2))
                    }
                })
                .replication(renoir::Replication::new_limited(lim));
            vec![pairs(left.zip(right).collect_vec())]
        }
        _ => panic!("unknown job {job}"),
    }
}

fn run_case(h: &[String]) -> Vec<String> {
    let par: u64 = h[2].parse().unwrap_or(1).clamp(1, 8);
    let ctx = StreamContext::new(RuntimeConfig::local(par).unwrap());
    let getters = build(&ctx, h);
    ctx.execute_blocking();
    let job = h[1].as_str();
    let mut out = vec![];
    for (i, g) in getters.into_iter().enumerate() {
        let mut v = g();
        match job {
            "zipseq" => {}
            "zippar" | "ziplim" => {
                let n1: i64 = h[3].parse().unwrap_or(0);
                let n2: i64 = h[4].parse().unwrap_or(0);
                let (mut ls, mut rs): (Vec<i64>, Vec<i64>) = v
                    .iter()
                    .map(|p| match p {
                        Val::Tup(l) => (l[0].int(), l[1].int()),
                        _ => (-1, -1),
                    })
                    .unzip();
                let bad_l = ls.iter().filter(|x| **x < 0 || **x >= n1).count();
                let bad_r = rs.iter().filter(|x| **x < 1000 || **x >= 1000 + n2).count();
                ls.sort();
                ls.dedup();
                rs.sort();
                rs.dedup();
                out.push(format!(
                    "zippar pairs={} distinctL={} distinctR={} badL={bad_l} badR={bad_r}",
                    v.len(),
                    ls.len(),
                    rs.len()
                ));
                continue;
            }
            _ => v.sort(),
        }
        out.push(format!("sink {i} {}", Val::List(v)));
    }
    out
}

fn exec(c: &Case) -> Vec<String> {
    if !c.ops.iter().any(|o| o.first().map(|s| s == "run").unwrap_or(false)) {
        return vec![];
    }
    let (tx, rx) = mpsc::channel();
    let h = c.header.clone();
    std::thread::spawn(move || {
        let res = catch_unwind(AssertUnwindSafe(|| run_case(&h)));
        let _ = tx.send(match res {
            Ok(v) => v,
            Err(e) => {
                let msg = if let Some(s) = e.downcast_ref::<String>() {
                    s.clone()
                } else if let Some(s) = e.downcast_ref::<&str>() {
                    s.to_string()
                } else {
                    "unknown".into()
                };
                vec![format!("panic:{}", classify_panic(&msg))]
            }
        });
    });
    match rx.recv_timeout(Duration::from_secs(20 * nvh::load_factor() as u64)) {
        Ok(v) => v,
        Err(_) => vec!["blocked".into()],
    }
}

fn gen(rng: &mut Rng, i: usize) -> Case {
    const JOBS: &[&str] = &["split", "route", "merge", "bcast", "diamond", "combo", "zipseq", "zippar", "ziplim"];
    let job = JOBS[i % JOBS.len()];
    let par = rng.range(1, 4);
    let n = match rng.below(6) {
        0 => 0,
        1 => 1,
        2 => rng.range(2, 5),
        _ => rng.range(5, 60),
    };
    let src = rng.range(0, 2);
    let s = |x: i64| x.to_string();
    let mut c = match job {
        "split" => Case::new(&["fanout", job, &s(par), &s(n), &s(src), &s(rng.range(2, 4))]),
        "route" => {
            let k = rng.range(2, 3);
            let ps: Vec<&str> = (0..k).map(|_| *rng.pick(PREDS)).collect();
            Case::new(&["fanout", job, &s(par), &s(n), &s(src), &ps.join(",")])
        }
        "merge" => Case::new(&["fanout", job, &s(par), &s(n), &s(src), &s(rng.range(2, 3))]),
        "bcast" => Case::new(&["fanout", job, &s(par), &s(n), &s(src)]),
        "diamond" | "combo" => Case::new(&["fanout", job, &s(par), &s(n), &s(rng.range(1, 2)), &s(rng.range(0, 1))]),
        _ => {
            let n2 = match rng.below(4) {
                0 => n,
                1 => n + 1,
                2 => 0,
                _ => rng.range(0, 60),
            };
            if job == "ziplim" {
                let par = rng.range(2, 4);
                Case::new(&["fanout", job, &s(par), &s(n), &s(n2), &s(rng.range(1, par)), &s(rng.range(0, 1))])
            } else if rng.chance(1, 2) {
                Case::new(&["fanout", job, &s(par), &s(n), &s(n2)])
            } else {
                Case::new(&["fanout", job, &s(par), &s(n2), &s(n)])
            }
        }
    };
    c.op(&["run"]);
    c
}

fn main() {
    run_main("fanout", gen, exec);
}
