//! C02 (frame): the real `remote_send` / `remote_recv` (through `renoir::verif::frame_send` /
//! `frame_recv`). A list of batches for several destination replicas is framed into one byte
//! stream (what one multiplexed TCP connection carries), optionally truncated, and read back by
//! `remote_recv` through a reader that returns only a few bytes per `read` call.
//!
//! header: `frame <block> <host> <prev_block>` (the `DemuxCoord` of the receiving side)
//! ops:    `f <sb>.<sh>.<sr> <dest replica> <prev block> <payload hex | -> <elem>*`
//!         `r <k>+`   chunk sizes of the reader (cycled; default: everything at once)
//!         `cut <n>`  only the first n bytes of the stream arrive
//! outputs: `bytes <len> <cksum>`; `tx <size> <replica> <sender block> <payload len> <payload cksum>`
//!         per sent frame (fields read back from the raw bytes); `rx <b>.<h>.<r> <prev> <sb>.<sh>.<sr> <elem>*`
//!         per received frame; then `eof` or `panic:recv`.
use std::io::Read;
use std::panic::{catch_unwind, AssertUnwindSafe};

use nvh::*;
use renoir::operator::StreamElement;
use renoir::verif::{frame_recv, frame_send, Coord};

const HEADER: usize = 20;

fn cksum(bs: &[u8]) -> u64 {
    let (mut a, mut b) = (1u64, 0u64);
    for x in bs {
        a = (a + *x as u64) % 65521;
        b = (b + a) % 65521;
    }
    b * 65536 + a
}

fn hex(bs: &[u8]) -> String {
    if bs.is_empty() {
        return "-".into();
    }
    bs.iter().map(|b| format!("{b:02x}")).collect()
}

fn coord(s: &str) -> Coord {
    let p: Vec<u64> = s.split('.').map(|x| x.parse().unwrap()).collect();
    Coord::new(p[0], p[1], p[2])
}

fn fmt_coord(c: Coord) -> String {
    format!("{}.{}.{}", c.block_id, c.host_id, c.replica_id)
}

fn id(rng: &mut Rng) -> u64 {
    match rng.below(8) {
        0 => u64::MAX,
        1 => rng.next(),
        2 => 255 + rng.below(3),
        3 => (1u64 << (8 * rng.range(1, 7))) - rng.below(2),
        _ => rng.below(6),
    }
}

fn rand_val(rng: &mut Rng, depth: u32) -> Val {
    match rng.below(if depth == 0 { 3 } else { 8 }) {
        0 => Val::Int(rng.range(-3, 300)),
        1 => Val::Int(rng.next() as i64),
        2 => Val::None,
        3 => Val::Some(Box::new(rand_val(rng, depth - 1))),
        4 => Val::Tup(vec![rand_val(rng, depth - 1), rand_val(rng, depth - 1)]),
        5 => Val::List((0..rng.below(5)).map(|_| rand_val(rng, depth - 1)).collect()),
        6 => Val::Left(Box::new(rand_val(rng, depth - 1))),
        _ => Val::Int(rng.range(0, 9)),
    }
}

fn rand_batch(rng: &mut Rng) -> Vec<StreamElement<Val>> {
    let len = match rng.below(40) {
        0..=3 => 0,
        4..=7 => rng.range(30, 120),
        _ => rng.range(1, 6),
    };
    let mut v: Vec<StreamElement<Val>> = (0..len)
        .map(|_| match rng.below(10) {
            0 => StreamElement::Watermark(rng.range(-5, 1000)),
            1 => StreamElement::FlushAndRestart,
            2 => StreamElement::Terminate,
            3 => StreamElement::FlushBatch,
            4 | 5 => StreamElement::Timestamped(rand_val(rng, 2), rng.range(-5, 1000)),
            _ => StreamElement::Item(rand_val(rng, 2)),
        })
        .collect();
    if rng.chance(1, 150) {
        // payload longer than 65535 bytes: the third byte of `size` is used
        v.push(StreamElement::Item(Val::ints((0..14000).map(|_| rng.next() as i64 >> 8))));
    }
    v
}

/// frame one batch with the real code; returns header+payload bytes
fn send_one(sender: Coord, dest: Coord, prev: u64, batch: Vec<StreamElement<Val>>) -> Vec<u8> {
    let mut buf = Vec::new();
    frame_send(batch, sender, dest, prev, &mut buf);
    buf
}

fn gen(rng: &mut Rng, _i: usize) -> Case {
    let (block, host, prev) = (id(rng), id(rng), id(rng));
    let mut c = Case::new(&["frame", &block.to_string(), &host.to_string(), &prev.to_string()]);
    let nrep = rng.range(1, 4) as u64;
    let reps: Vec<u64> = (0..nrep).map(|i| if rng.chance(1, 4) { id(rng) } else { i }).collect();
    let senders: Vec<Coord> = (0..rng.range(1, 3)).map(|r| Coord::new(prev, id(rng), r as u64)).collect();
    let nframes = rng.range(0, 8);
    let mut total = 0usize;
    for _ in 0..nframes {
        let sender = *rng.pick(&senders);
        let rep = *rng.pick(&reps);
        let p = if rng.chance(1, 8) { id(rng) } else { prev };
        let batch = rand_batch(rng);
        let bytes = send_one(sender, Coord::new(block, host, rep), p, batch.clone());
        total += bytes.len();
        let mut w = vec!["f".to_string(), fmt_coord(sender), rep.to_string(), p.to_string(), hex(&bytes[HEADER.min(bytes.len())..])];
        w.extend(batch.iter().map(fmt_elem));
        c.ops(w);
    }
    if rng.chance(3, 4) {
        let mut w = vec!["r".to_string()];
        let k = rng.range(1, 4);
        for _ in 0..k {
            w.push(match rng.below(4) { 0 => 1, 1 => rng.range(1, 7), 2 => rng.range(1, 40), _ => rng.range(15, 25) }.to_string());
        }
        c.ops(w);
    }
    if total > 0 && rng.chance(1, 4) {
        let n = match rng.below(3) {
            0 => rng.below(total as u64 + 1),
            1 => rng.below(HEADER as u64 + 3),
            _ => (total as u64).saturating_sub(rng.below(HEADER as u64 + 3)),
        };
        c.ops(vec!["cut".into(), n.to_string()]);
    }
    c
}

struct Chunked {
    data: Vec<u8>,
    pos: usize,
    pattern: Vec<usize>,
    i: usize,
}

impl Read for Chunked {
    fn read(&mut self, buf: &mut [u8]) -> std::io::Result<usize> {
        let k = if self.pattern.is_empty() { usize::MAX } else { self.pattern[self.i % self.pattern.len()] };
        self.i += 1;
        let n = k.max(1).min(buf.len()).min(self.data.len() - self.pos);
        buf[..n].copy_from_slice(&self.data[self.pos..self.pos + n]);
        self.pos += n;
        Ok(n)
    }
}

fn le(bs: &[u8]) -> u64 {
    bs.iter().rev().fold(0u64, |a, b| (a << 8) | *b as u64)
}

fn exec(c: &Case) -> Vec<String> {
    let block: u64 = c.header[1].parse().unwrap();
    let host: u64 = c.header[2].parse().unwrap();
    let prev: u64 = c.header[3].parse().unwrap();
    let mut stream = Vec::new();
    let mut out = vec![];
    let mut tx = vec![];
    let mut pattern = vec![];
    let mut cut = None;
    for op in &c.ops {
        match op[0].as_str() {
            "f" => {
                let batch: Vec<StreamElement<Val>> = op[5..].iter().map(|e| parse_elem(e).expect("bad elem")).collect();
                let bytes = send_one(coord(&op[1]), Coord::new(block, host, op[2].parse().unwrap()), op[3].parse().unwrap(), batch);
                // header fields as they are on the wire
                let pl = &bytes[HEADER..];
                tx.push(format!("tx {} {} {} {} {}", le(&bytes[0..4]), le(&bytes[4..12]), le(&bytes[12..20]), pl.len(), cksum(pl)));
                stream.extend_from_slice(&bytes);
            }
            "r" => pattern = op[1..].iter().map(|k| k.parse().unwrap()).collect(),
            "cut" => cut = Some(op[1].parse::<usize>().unwrap()),
            _ => {}
        }
    }
    if let Some(n) = cut {
        stream.truncate(n);
    }
    out.push(format!("bytes {} {}", stream.len(), cksum(&stream)));
    out.extend(tx);
    let mut reader = Chunked { data: stream, pos: 0, pattern, i: 0 };
    loop {
        let r = catch_unwind(AssertUnwindSafe(|| frame_recv::<Val, _>(block, host, prev, &mut reader)));
        match r {
            Ok(Some((dest, p, sender, batch))) => {
                let mut line = format!("rx {} {} {}", fmt_coord(dest), p, fmt_coord(sender));
                for e in &batch {
                    line.push(' ');
                    line.push_str(&fmt_elem(e));
                }
                out.push(line);
            }
            Ok(None) => {
                out.push("eof".into());
                break;
            }
            Err(e) => {
                let msg = e.downcast_ref::<String>().cloned().unwrap_or_default();
                out.push(if msg.starts_with("Failed to receive") { "panic:recv".into() } else { format!("panic:{}", classify_panic(&msg)) });
                break;
            }
        }
    }
    out
}

fn main() {
    run_main("frame", gen, exec);
}
