//! C09 (zip part; also C05/C06 for Zip): the REAL `Zip` operator (`renoir::verif::ops::zip`) on top of its
//! real `Start<BinaryStartReceiver>`, whose two sides are fed by the harness batch by batch.
//!
//! header: `zip <nL> <nR>`; ops: `b L|R <replica> <tok…>`; see lean/Driver/Zip.lean for the normalisation
//! rules (duplicated here on purpose: every subset of the op lines is a valid case).
//! Protocol: adaptive batch mode with a 1 ms delay; send ONE batch on one side, pull `next()` until the
//! timeout-generated `FlushBatch` (or `Terminate`), next batch. At most one channel is non-empty whenever
//! `select` may listen to both.
use std::panic::{catch_unwind, AssertUnwindSafe};
use std::sync::mpsc;
use std::time::Duration;

use nvh::*;
use renoir::operator::{Operator, StreamElement};
use renoir::verif::{ops, Coord, FakeNet, FakeSender};
use renoir::BatchMode;

// ------------------------------------------------------------------------------------------------
// generator

/// the elements of one replica for one iteration (without the closing FAR)
fn link(rng: &mut Rng, len: usize, mode: u8, val: &mut i64, base: i64) -> Vec<String> {
    // mode 0 = plain items, 1 = timestamped + watermarks, 2 = timestamped only, 3 = mixing (malformed)
    let mut l = vec![];
    let mut t = rng.range(0, 5);
    let mut last_wm: Option<i64> = None;
    for _ in 0..len {
        *val += 1;
        let v = base + *val;
        match mode {
            0 => l.push(format!("I:{v}")),
            3 => {
                if rng.chance(1, 2) {
                    l.push(format!("I:{v}"))
                } else {
                    l.push(format!("T:{v}:{}", rng.range(0, 20)))
                }
            }
            _ => {
                if mode == 1 && rng.chance(1, 4) {
                    let w = match last_wm {
                        Some(w) => w + rng.range(1, 6),
                        None => t + rng.range(-2, 3),
                    };
                    last_wm = Some(w);
                    l.push(format!("W:{w}"));
                }
                let lo = last_wm.map(|w| w + 1).unwrap_or(t - 3);
                t = lo + rng.range(0, 6);
                l.push(format!("T:{v}:{t}"));
            }
        }
    }
    if mode == 1 && rng.chance(1, 3) {
        let w = last_wm.map(|w| w + rng.range(1, 6)).unwrap_or(t + rng.range(0, 3));
        l.push(format!("W:{w}"));
    }
    l
}

fn gen(rng: &mut Rng, i: usize) -> Case {
    let n_l = if rng.chance(2, 3) { 1 } else { 2 };
    let n_r = if rng.chance(2, 3) { 1 } else { 2 };
    let mut c = Case::new(&["zip", &n_l.to_string(), &n_r.to_string()]);
    let iters = match rng.below(6) {
        0 | 1 => 2,
        2 => 3,
        _ => 1,
    };
    let mode: u8 = match rng.below(20) {
        0 => 3,
        1..=8 => 0,
        9..=15 => 1,
        _ => 2,
    };
    let mut val = (i as i64 % 50) * 100;
    for _ in 0..iters {
        let pick_len = |rng: &mut Rng| -> usize {
            (match rng.below(6) {
                0 => 0,
                1 => 1,
                _ => rng.range(0, 7),
            }) as usize
        };
        // side lengths: often equal, off by one, or one side empty
        let len_l = pick_len(rng);
        let len_r = match rng.below(5) {
            0 => len_l,
            1 => len_l + 1,
            _ => pick_len(rng),
        };
        // distribute the side's elements over its replicas: per replica link
        let mut mk_side = |rng: &mut Rng, n: usize, len: usize, base: i64| -> Vec<Vec<String>> {
            let mut lens = vec![0usize; n];
            for _ in 0..len {
                lens[rng.below(n as u64) as usize] += 1;
            }
            lens.iter()
                .map(|&k| {
                    let mut l = link(rng, k, mode, &mut val, base);
                    l.reverse();
                    l
                })
                .collect()
        };
        let mut left = mk_side(rng, n_l, len_l, 0);
        let mut right = mk_side(rng, n_r, len_r, 10_000);
        let mut far_l = vec![false; n_l];
        let mut far_r = vec![false; n_r];
        // which side tends to go first: 0/3 = mixed, 1 = left completely first, 2 = right completely first
        let bias = rng.below(4);
        loop {
            let l_open = far_l.iter().any(|f| !f);
            let r_open = far_r.iter().any(|f| !f);
            if !l_open && !r_open {
                break;
            }
            let pick_left = if !l_open {
                false
            } else if !r_open {
                true
            } else {
                match bias {
                    1 => true,
                    2 => false,
                    _ => rng.chance(1, 2),
                }
            };
            let (links, fars, side) = if pick_left {
                (&mut left, &mut far_l, "L")
            } else {
                (&mut right, &mut far_r, "R")
            };
            let open: Vec<usize> = (0..fars.len()).filter(|r| !fars[*r]).collect();
            let r = *rng.pick(&open);
            let pending = &mut links[r];
            let take = if pending.is_empty() { 0 } else { rng.range(0, 3.min(pending.len() as i64)) as usize };
            let mut toks: Vec<String> = (0..take).map(|_| pending.pop().unwrap()).collect();
            if pending.is_empty() && (take == 0 || rng.chance(1, 2)) {
                toks.push("FAR".into());
                fars[r] = true;
            }
            if toks.is_empty() {
                continue;
            }
            let mut w = vec!["b".to_string(), side.to_string(), r.to_string()];
            w.extend(toks);
            c.ops(w);
        }
    }
    c
}

// ------------------------------------------------------------------------------------------------
// op lines -> batches (normalisation, mirrors Driver/Zip.lean `normalise`)

#[derive(Clone, Debug)]
struct Send {
    left: bool,
    replica: usize,
    elems: Vec<StreamElement<Val>>,
}

fn parse_tok(s: &str) -> Option<StreamElement<Val>> {
    match parse_elem(s)? {
        e @ (StreamElement::Item(_)
        | StreamElement::Timestamped(_, _)
        | StreamElement::Watermark(_)
        | StreamElement::FlushAndRestart) => Some(e),
        _ => None,
    }
}

fn normalise(n_l: usize, n_r: usize, ops: &[Vec<String>]) -> Vec<Send> {
    let mut out = vec![];
    let mut fl = vec![false; n_l];
    let mut fr = vec![false; n_r];
    let mut dirty = false;
    for op in ops {
        if op.len() < 3 || op[0] != "b" || (op[1] != "L" && op[1] != "R") {
            continue;
        }
        let Ok(r) = op[2].parse::<usize>() else { continue };
        let left = op[1] == "L";
        let flags = if left { &mut fl } else { &mut fr };
        if r >= flags.len() || flags[r] {
            continue;
        }
        let mut elems = vec![];
        for t in &op[3..] {
            if let Some(e) = parse_tok(t) {
                let far = matches!(e, StreamElement::FlushAndRestart);
                elems.push(e);
                if far {
                    break;
                }
            }
        }
        if elems.is_empty() {
            continue;
        }
        if matches!(elems.last(), Some(StreamElement::FlushAndRestart)) {
            flags[r] = true;
        }
        out.push(Send { left, replica: r, elems });
        if fl.iter().all(|f| *f) && fr.iter().all(|f| *f) {
            fl = vec![false; n_l];
            fr = vec![false; n_r];
            dirty = false;
        } else {
            dirty = true;
        }
    }
    if dirty {
        for r in 0..n_l {
            if !fl[r] {
                out.push(Send { left: true, replica: r, elems: vec![StreamElement::FlushAndRestart] });
            }
        }
        for r in 0..n_r {
            if !fr[r] {
                out.push(Send { left: false, replica: r, elems: vec![StreamElement::FlushAndRestart] });
            }
        }
    }
    for r in 0..n_l {
        out.push(Send { left: true, replica: r, elems: vec![StreamElement::Terminate] });
    }
    for r in 0..n_r {
        out.push(Send { left: false, replica: r, elems: vec![StreamElement::Terminate] });
    }
    out
}

// ------------------------------------------------------------------------------------------------
// driving the real operator

fn run_case(c: &Case) -> Vec<String> {
    let n_l: usize = c.header[1].parse().unwrap();
    let n_r: usize = c.header[2].parse().unwrap();
    let sends = normalise(n_l, n_r, &c.ops);

    let me = Coord::new(0, 0, 0);
    let mut net = FakeNet::new(me);
    let ls: Vec<FakeSender<Val>> = (0..n_l).map(|r| net.add_prev::<Val>(Coord::new(1, 0, r as u64))).collect();
    let rs: Vec<FakeSender<Val>> = (0..n_r).map(|r| net.add_prev::<Val>(Coord::new(2, 0, r as u64))).collect();
    let mut op = ops::zip::<Val, Val>(1, 2);
    net.with_metadata(vec![me], 0, BatchMode::adaptive(1000, Duration::from_millis(1)), |m| op.setup(m));

    let mut out = vec![];
    for (u, sd) in sends.iter().enumerate() {
        let sender = if sd.left { &ls[sd.replica] } else { &rs[sd.replica] };
        assert!(sender.send(sd.elems.clone()), "channel disconnected");
        let mut terminated = false;
        loop {
            match op.next() {
                StreamElement::FlushBatch => break,
                StreamElement::Terminate => {
                    out.push(format!("{u} TERM"));
                    terminated = true;
                    break;
                }
                e => out.push(format!("{u} {}", fmt_elem(&e.map(|(l, r)| Val::pair(l, r))))),
            }
        }
        if terminated {
            break;
        }
    }
    out
}

fn exec(c: &Case) -> Vec<String> {
    // helper thread + watchdog: a wrong expectation must not hang the run
    let (tx, rx) = mpsc::channel();
    let case = c.clone();
    std::thread::spawn(move || {
        let res = catch_unwind(AssertUnwindSafe(|| run_case(&case)));
        let _ = tx.send(match res {
            Ok(v) => v,
            Err(e) => {
                let msg = if let Some(s) = e.downcast_ref::<String>() {
                    s.clone()
                } else if let Some(s) = e.downcast_ref::<&str>() {
                    s.to_string()
                } else {
                    "unknown".into()
                };
                vec![format!("panic:{}", classify_panic(&msg))]
            }
        });
    });
    match rx.recv_timeout(Duration::from_secs(5 * nvh::load_factor() as u64)) {
        Ok(v) => v,
        Err(_) => vec!["blocked".into()],
    }
}

fn main() {
    run_main("zip", gen, exec);
}
