//! C15 (parallel iterator source): the REAL `IntoParallelSource::generate_iterator(index, peers)` of
//! `Range<T>` for T in u8,i8,u16,i16,u32,i32,u64,i64,usize,isize. `Self::Iter = Range<T>`, so the produced
//! sub-range is observed through its public `start`/`end` fields (nothing is iterated).
//!
//! header: `range <ty> <start> <end> <peers>`; ops: `i <index>`;
//! output per op: `<index> <first> <end_exclusive>` | `<index> empty` | `<index> panic:<class>`.
use nvh::*;
use renoir::operator::source::IntoParallelSource;
use std::panic::{catch_unwind, AssertUnwindSafe};

const TYPES: [&str; 10] = ["u8", "i8", "u16", "i16", "u32", "i32", "u64", "i64", "usize", "isize"];

fn bounds(ty: &str) -> (i128, i128) {
    match ty {
        "u8" => (u8::MIN as i128, u8::MAX as i128),
        "i8" => (i8::MIN as i128, i8::MAX as i128),
        "u16" => (u16::MIN as i128, u16::MAX as i128),
        "i16" => (i16::MIN as i128, i16::MAX as i128),
        "u32" => (u32::MIN as i128, u32::MAX as i128),
        "i32" => (i32::MIN as i128, i32::MAX as i128),
        "u64" => (u64::MIN as i128, u64::MAX as i128),
        "i64" => (i64::MIN as i128, i64::MAX as i128),
        "usize" => (usize::MIN as i128, usize::MAX as i128),
        "isize" => (isize::MIN as i128, isize::MAX as i128),
        _ => panic!("bad type {ty}"),
    }
}

fn clamp(x: i128, lo: i128, hi: i128) -> i128 {
    x.max(lo).min(hi)
}

/// Fixed regression inputs, replayed first in every run: the inputs on which the code failed before the fix
/// ebec77c and must now satisfy the property:
/// F1 `(10u8..0)` with 4 replicas (replica 1 used to yield 9..10), F1 `(5u64..3)` (used to panic on the
/// subtraction), F7 `(2^63..2^63+10usize)` with 2 replicas (used to panic in try_into), F10 `(250u8..255)`
/// with 8 replicas (replica 6 used to panic: start offset 256 does not fit u8).
const WITNESSES: [(&str, i128, i128, i128); 4] = [
    ("u8", 10, 0, 4),
    ("u64", 5, 3, 1),
    ("usize", 1 << 63, (1 << 63) + 10, 2),
    ("u8", 250, 255, 8),
];

fn gen(rng: &mut Rng, i: usize) -> Case {
    if i < WITNESSES.len() {
        let (ty, s, e, p) = WITNESSES[i];
        let mut c = Case::new(&["range", ty, &s.to_string(), &e.to_string(), &p.to_string()]);
        for k in 0..p {
            c.ops(vec!["i".into(), k.to_string()]);
        }
        return c;
    }
    let ty = *rng.pick(&TYPES);
    let (lo, hi) = bounds(ty);
    let width = hi - lo;
    let big = width > (1i128 << 40);
    // anchor points: type min/max, 0, -1/1, the i64 boundary (for usize/u64), a random inner point
    let mut anchors = vec![lo, hi, clamp(0, lo, hi), clamp(-1, lo, hi), clamp(1, lo, hi), lo + width / 2];
    if ty == "usize" || ty == "u64" {
        anchors.push(1i128 << 63);
        anchors.push((1i128 << 63) - 1);
    }
    anchors.push(lo + (rng.next() as i128 % (width + 1)).abs());
    let anchor = *rng.pick(&anchors);
    let small = |rng: &mut Rng| rng.range(0, 40) as i128;
    let peers_small = rng.range(1, 9) as i128;
    let shape = rng.below(12);
    let (start, end, mut peers): (i128, i128, i128) = match shape {
        // forward, small, anywhere near an anchor
        0 | 1 => {
            let s = clamp(anchor - small(rng), lo, hi);
            (s, clamp(s + small(rng), lo, hi), peers_small)
        }
        // forward, ending at / just below the anchor (type max!)
        2 => {
            let e = clamp(anchor - rng.range(0, 3) as i128, lo, hi);
            (clamp(e - small(rng), lo, hi), e, peers_small)
        }
        // len < peers, len = peers, len = k*peers, len = k*peers ± 1
        3 => {
            let p = peers_small;
            let len = match rng.below(4) {
                0 => rng.range(0, p as i64 - 1) as i128,
                1 => p,
                2 => p * rng.range(1, 6) as i128,
                _ => (p * rng.range(1, 6) as i128 + rng.range(-1, 1) as i128).max(0),
            };
            let s = clamp(anchor, lo, hi - len.min(width));
            (s, clamp(s + len, lo, hi), p)
        }
        // empty
        4 => (anchor, anchor, peers_small),
        // reversed, small distance
        5 | 6 => {
            let e = clamp(anchor - small(rng) - 1, lo, hi);
            (clamp(e + 1 + small(rng), lo, hi), e, peers_small)
        }
        // reversed, arbitrary distance
        7 => {
            let a = lo + (rng.next() as i128 % (width + 1)).abs();
            let b = lo + (rng.next() as i128 % (width + 1)).abs();
            (a.max(b), a.min(b), peers_small)
        }
        // huge forward (at most 2^62 elements)
        8 | 9 => {
            let maxlen = width.min(1i128 << 62);
            let len = match rng.below(3) {
                0 => maxlen,
                1 => maxlen - rng.range(0, 20) as i128,
                _ => (rng.next() as i128).abs() % (maxlen + 1),
            };
            let s = match rng.below(3) {
                0 => lo,
                1 => hi - len,
                _ => lo + (rng.next() as i128).abs() % (width - len + 1),
            };
            (s, s + len, peers_small)
        }
        // whole type (may exceed 2^62 elements for the 64-bit types: outside the quantifier, the
        // driver marks those cases as such)
        10 => (lo, hi, peers_small),
        // F7 territory: usize/u64 above the i64 range; otherwise forward near max
        _ => {
            let base = if big && lo == 0 { (1i128 << 63) + rng.range(-5, 40) as i128 } else { hi - small(rng) };
            let s = clamp(base, lo, hi);
            (s, clamp(s + small(rng), lo, hi), peers_small)
        }
    };
    // replica counts: mostly 1..9, sometimes 10..64, rarely huge
    match rng.below(20) {
        0 | 1 => peers = rng.range(10, 64) as i128,
        2 => peers = *rng.pick(&[255i128, 256, 65536, 1 << 20, (1 << 32) + 1, 1 << 40, (1 << 62) - 1]),
        _ => {}
    }
    let mut c = Case::new(&["range", ty, &start.to_string(), &end.to_string(), &peers.to_string()]);
    let idx: Vec<i128> = if peers <= 64 {
        (0..peers).collect()
    } else {
        let mut v = vec![0, 1, 2, peers / 2, peers - 3, peers - 2, peers - 1];
        for _ in 0..4 {
            v.push((rng.next() as i128).abs() % peers);
        }
        v.sort();
        v.dedup();
        v
    };
    for i in idx {
        c.ops(vec!["i".into(), i.to_string()]);
    }
    c
}

fn panic_class(e: Box<dyn std::any::Any + Send>) -> String {
    let msg = if let Some(s) = e.downcast_ref::<String>() {
        s.clone()
    } else if let Some(s) = e.downcast_ref::<&str>() {
        s.to_string()
    } else {
        "unknown".into()
    };
    classify_panic(&msg)
}

macro_rules! run_ty {
    ($t:ty, $start:expr, $end:expr, $index:expr, $peers:expr) => {{
        let s: $t = $start as $t;
        let e: $t = $end as $t;
        match catch_unwind(AssertUnwindSafe(|| (s..e).generate_iterator($index, $peers))) {
            Ok(r) => {
                // `Range<T>`: yields r.start, …, r.end - 1; nothing when r.start >= r.end
                if r.start < r.end {
                    format!("{} {} {}", $index, r.start, r.end)
                } else {
                    format!("{} empty", $index)
                }
            }
            Err(p) => format!("{} panic:{}", $index, panic_class(p)),
        }
    }};
}

fn exec(c: &Case) -> Vec<String> {
    let ty = c.header[1].as_str();
    let start: i128 = c.header[2].parse().unwrap();
    let end: i128 = c.header[3].parse().unwrap();
    let peers: u64 = c.header[4].parse().unwrap();
    let (lo, hi) = bounds(ty);
    assert!(lo <= start && start <= hi && lo <= end && end <= hi, "bounds outside the type");
    let mut out = vec![];
    for op in &c.ops {
        if op[0] != "i" {
            continue;
        }
        let index: u64 = op[1].parse().unwrap();
        out.push(match ty {
            "u8" => run_ty!(u8, start, end, index, peers),
            "i8" => run_ty!(i8, start, end, index, peers),
            "u16" => run_ty!(u16, start, end, index, peers),
            "i16" => run_ty!(i16, start, end, index, peers),
            "u32" => run_ty!(u32, start, end, index, peers),
            "i32" => run_ty!(i32, start, end, index, peers),
            "u64" => run_ty!(u64, start, end, index, peers),
            "i64" => run_ty!(i64, start, end, index, peers),
            "usize" => run_ty!(usize, start, end, index, peers),
            "isize" => run_ty!(isize, start, end, index, peers),
            _ => panic!("bad type"),
        });
    }
    out
}

fn main() {
    run_main("range", gen, exec);
}
