//! C05, engine level: the stream grammar observed at EVERY operator boundary of real pipelines.
//!
//! A `Probe<Op>` operator (public `Operator` trait, inserted with the public `Stream::add_operator`;
//! for keyed streams through the public field `KeyedStream.0`) forwards every element unchanged and
//! records the KIND of every element its `next()` returns (I, T, W, FB, FAR, TERM; run-length
//! compressed) under `(run, probe id, replica coordinate)`; the coordinate is read from the
//! `ExecutionMetadata` in `setup`. A generator builds random pipelines through the public API with a
//! probe after every operator the API lets us get behind: right after the source, after every
//! stateless / re-partitioning / stateful / binary stage (also between the operators of a composite
//! stage such as `group_by -> fold -> drop_key`), as first and last operator of every loop body (i.e.
//! directly after `Replay` / `Iterate` and directly in front of the loop's own fold + `IterationEnd`),
//! on the state and items streams of the loops and directly in front of every sink.
//!
//! header: `probe <config> <batch> <iter|par> <n> <nots|ts<k>> <vec|vec1|foreach|count>`
//!   config `L<cores>` | `R<c0>:<c1>` (in-process hosts over loopback TCP, see `nvh::e2e::run_hosts`)
//!   batch  `def|single|f<n>|a<n>:<ms>`; `ts<k>`: `add_timestamps` right after the source, watermark
//!   after every k-th element
//! ops (every subset of the op lines is a valid case: the builder repairs what a stage needs —
//!   `shuffle(auto)` in front of a loop / at the end of an `iterate` body / to equalise the two sides of a
//!   merge or zip, `drop_timestamps(auto)` in front of loops and `add_timestamps`; an unmatched `loop` is
//!   closed at the end, an unmatched `endloop` ignored):
//!   `s <stage> <params…>`   one stage, see `apply`
//!   `loop <replay|iterate> <max> <stop>` … `endloop <state|items|both>`   the loop state is
//!   `(rounds, sum)`: `loop_condition` increments `rounds` and continues while `rounds < stop`
//! outputs:
//!   `p <probe id> <position> <replica> <sequence>`  position = `after:<operator>` outside loops,
//!       `after:<operator>/in-loop:<l1>.<l2>` inside the body of loop l2 nested in l1; replica =
//!       `b<block>h<host>r<replica>`; sequence = comma separated kinds, `K*n` = n times K, `-` = empty
//!   `loop <id> <kind> <parent|-> <max> <stop> execs <e> rounds <r> calls <c>`  e = number of final states
//!       seen on the loop's state stream, r = sum of their round counters, c = calls of loop_condition
//!   `blocked` (30 s watchdog; 10 s in the region of the known C04 findings F17/F18, see `f18_region`) | `panic:<class>` | `infra`
use std::cell::RefCell;
use std::collections::{BTreeMap, HashMap};
use std::rc::Rc;
use std::fmt::{self, Display};
use std::io::Write;
use std::sync::atomic::{AtomicU64, AtomicUsize, Ordering};
use std::sync::{Arc, Mutex};
use std::time::Duration;

use nvh::e2e::{erase, next_uniq, run_hosts, Batch, BoxOp, Config};
use nvh::*;
use renoir::operator::window::{CountWindow, EventTimeWindow};
use renoir::operator::{Operator, StreamElement};
use renoir::structure::{BlockStructure, OperatorStructure};
use renoir::{ExecutionMetadata, IterationStateHandle, KeyedStream, Replication, Stream, StreamContext};

// ------------------------------------------------------------------------------------------------
// the probe

type Rec = Arc<Mutex<Vec<(u8, u32)>>>;
/// (run, probe id, (block, host, replica)) -> run-length compressed kinds
static RECS: Mutex<BTreeMap<(u64, usize, (u64, u64, u64)), Rec>> = Mutex::new(BTreeMap::new());
/// run -> probe id -> position
static LABELS: Mutex<BTreeMap<u64, Vec<String>>> = Mutex::new(BTreeMap::new());
/// (run, loop) -> (round counters of the final states, calls of loop_condition)
static LOOPS: Mutex<BTreeMap<(u64, usize), (Vec<i64>, u64)>> = Mutex::new(BTreeMap::new());
static RUN: AtomicU64 = AtomicU64::new(1);
static PANICS: Mutex<Vec<String>> = Mutex::new(Vec::new());

const KINDS: [&str; 6] = ["I", "T", "W", "FB", "FAR", "TERM"];

fn kind_of<T>(e: &StreamElement<T>) -> u8 {
    match e {
        StreamElement::Item(_) => 0,
        StreamElement::Timestamped(_, _) => 1,
        StreamElement::Watermark(_) => 2,
        StreamElement::FlushBatch => 3,
        StreamElement::FlushAndRestart => 4,
        StreamElement::Terminate => 5,
    }
}

#[derive(Clone)]
struct Probe<Op: Operator> {
    prev: Op,
    run: u64,
    id: usize,
    rec: Option<Rec>,
}

impl<Op: Operator> Display for Probe<Op> {
    fn fmt(&self, f: &mut fmt::Formatter<'_>) -> fmt::Result {
        write!(f, "{} -> Probe#{}", self.prev, self.id)
    }
}

impl<Op: Operator> Operator for Probe<Op> {
    type Out = Op::Out;

    fn setup(&mut self, metadata: &mut ExecutionMetadata) {
        let c = metadata.coord;
        let rec: Rec = Arc::new(Mutex::new(Vec::new()));
        RECS.lock().unwrap().insert(
            (self.run, self.id, (c.block_id as u64, c.host_id as u64, c.replica_id as u64)),
            rec.clone(),
        );
        self.rec = Some(rec);
        self.prev.setup(metadata);
    }

    fn next(&mut self) -> StreamElement<Op::Out> {
        let e = self.prev.next();
        let k = kind_of(&e);
        if let Some(rec) = &self.rec {
            let mut g = rec.lock().unwrap();
            match g.last_mut() {
                Some((lk, n)) if *lk == k => *n += 1,
                _ => g.push((k, 1)),
            }
        }
        e
    }

    fn structure(&self) -> BlockStructure {
        self.prev.structure().add_operator(OperatorStructure::new::<Op::Out, _>("Probe"))
    }
}

/// User-defined operator (public trait) that bounds the data volume of generated pipelines: at most
/// `limit` Item / Timestamped elements per iteration and replica pass, the rest is dropped; every
/// other element is forwarded unchanged. Used in front of joins, after `broadcast` and at the end of
/// `iterate` bodies (a self-join fed back into the loop squares the multiplicities in every round).
#[derive(Clone)]
struct Cap<Op: Operator> {
    prev: Op,
    limit: usize,
    seen: usize,
}

impl<Op: Operator> Display for Cap<Op> {
    fn fmt(&self, f: &mut fmt::Formatter<'_>) -> fmt::Result {
        write!(f, "{} -> Cap({})", self.prev, self.limit)
    }
}

impl<Op: Operator> Operator for Cap<Op> {
    type Out = Op::Out;

    fn setup(&mut self, metadata: &mut ExecutionMetadata) {
        self.prev.setup(metadata);
    }

    fn next(&mut self) -> StreamElement<Op::Out> {
        loop {
            match self.prev.next() {
                e @ (StreamElement::Item(_) | StreamElement::Timestamped(_, _)) => {
                    self.seen += 1;
                    if self.seen <= self.limit {
                        return e;
                    }
                }
                StreamElement::FlushAndRestart => {
                    self.seen = 0;
                    return StreamElement::FlushAndRestart;
                }
                e => return e,
            }
        }
    }

    fn structure(&self) -> BlockStructure {
        self.prev.structure().add_operator(OperatorStructure::new::<Op::Out, _>("Cap"))
    }
}

// ------------------------------------------------------------------------------------------------
// pipeline description

#[derive(Clone, Debug)]
enum Stage {
    S(Vec<String>),
    Loop { iterate: bool, max: usize, stop: i64, mode: String, body: Vec<Stage> },
}

/// tolerant recursive-descent parser over the op lines
fn parse_block(ops: &[Vec<String>], i: &mut usize, depth: usize) -> (Vec<Stage>, String) {
    let mut out = vec![];
    while *i < ops.len() {
        let w = &ops[*i];
        *i += 1;
        match w.first().map(|s| s.as_str()) {
            Some("s") if w.len() >= 2 => out.push(Stage::S(w[1..].to_vec())),
            Some("loop") if depth < 2 => {
                let iterate = w.get(1).map(|s| s == "iterate").unwrap_or(false);
                let max = w.get(2).and_then(|s| s.parse::<usize>().ok()).unwrap_or(1).clamp(1, 4);
                let stop = w.get(3).and_then(|s| s.parse::<i64>().ok()).unwrap_or(9).clamp(0, 9);
                let (body, mode) = parse_block(ops, i, depth + 1);
                out.push(Stage::Loop { iterate, max, stop, mode, body });
            }
            Some("endloop") if depth > 0 => {
                return (out, w.get(1).cloned().unwrap_or_else(|| "state".into()));
            }
            _ => {}
        }
    }
    (out, "state".into())
}

#[derive(Clone, Copy, PartialEq, Debug)]
enum Rep {
    U,
    One,
    L2,
    Host,
}

type P = Stream<BoxOp<i64>>;
type LState = (i64, i64);

struct St {
    s: P,
    rep: Rep,
    /// the stream may carry Timestamped / Watermark elements
    ts: bool,
}

#[derive(Default)]
struct B {
    run: u64,
    labels: Vec<String>,
    next_loop: usize,
    path: Vec<usize>,
    /// (id, kind, parent, max, stop)
    loops: Vec<(usize, &'static str, Option<usize>, usize, i64)>,
}

const MODV: i64 = 1_000_003;

impl B {
    fn probe<T: Send + 'static, Op: Operator<Out = T> + 'static>(&mut self, s: Stream<Op>, what: &str) -> Stream<BoxOp<T>> {
        let id = self.labels.len();
        let pos = if self.path.is_empty() {
            format!("after:{what}")
        } else {
            let p: Vec<String> = self.path.iter().map(|l| l.to_string()).collect();
            format!("after:{what}/in-loop:{}", p.join("."))
        };
        self.labels.push(pos);
        let run = self.run;
        erase(s.add_operator(|prev| Probe { prev, run, id, rec: None }))
    }

    fn probe_k<K, V, Op>(&mut self, s: KeyedStream<Op>, what: &str) -> KeyedStream<BoxOp<(K, V)>>
    where
        K: renoir::operator::DataKey + Send + 'static,
        V: Send + 'static,
        Op: Operator<Out = (K, V)> + 'static,
    {
        KeyedStream(self.probe(s.0, what))
    }

    fn cap(&mut self, st: St, limit: usize) -> St {
        St { s: self.probe(st.s.add_operator(|prev| Cap { prev, limit, seen: 0 }), "cap(user-defined)"), rep: st.rep, ts: st.ts }
    }

    fn shuffle_auto(&mut self, st: St) -> St {
        St { s: self.probe(st.s.shuffle(), "shuffle(auto)"), rep: Rep::U, ts: st.ts }
    }

    fn drop_ts_auto(&mut self, st: St) -> St {
        if st.ts {
            St { s: self.probe(st.s.drop_timestamps(), "drop_timestamps(auto)"), rep: st.rep, ts: false }
        } else {
            st
        }
    }
}

fn key3(x: &i64) -> i64 {
    x.rem_euclid(3)
}

fn p_usize(w: &[String], i: usize, default: usize, lo: usize, hi: usize) -> usize {
    w.get(i).and_then(|s| s.parse::<usize>().ok()).unwrap_or(default).clamp(lo, hi)
}

/// per-replica monotone timestamps `10*c + jitter` (c = 1, 2, … counts the elements of the replica),
/// a watermark `10*c - 1` after every k-th element: every later element has a larger timestamp
fn add_ts(b: &mut B, st: St, k: usize, jitter: bool, what: &str) -> St {
    let st = b.drop_ts_auto(st);
    let k = k.max(1) as i64;
    let mut c = 0i64;
    let mut c2 = 0i64;
    let s = st.s.add_timestamps(
        move |x: &i64| {
            c += 1;
            10 * c + if jitter { x.rem_euclid(4) * 7 } else { 0 }
        },
        move |_x: &i64, _t: &i64| {
            c2 += 1;
            if c2 % k == 0 {
                Some(10 * c2 - 1)
            } else {
                None
            }
        },
    );
    St { s: b.probe(s, what), rep: st.rep, ts: true }
}

/// one simple stage; `state`: the state handle of the innermost enclosing loop
fn apply(b: &mut B, st: St, w: &[String], state: Option<&IterationStateHandle<LState>>) -> St {
    let in_loop = !b.path.is_empty();
    let name = w[0].as_str();
    let St { s, rep, ts } = st;
    match name {
        "map" => St { s: b.probe(s.map(|x: i64| (x.wrapping_mul(3) + 1).rem_euclid(MODV)), "map"), rep, ts },
        "filter" => St { s: b.probe(s.filter(|x: &i64| x.rem_euclid(3) != 0), "filter"), rep, ts },
        "flatmap" => St {
            s: b.probe(
                s.flat_map(|x: i64| match x.rem_euclid(3) {
                    0 => vec![],
                    1 => vec![x],
                    _ => vec![x, x + 1],
                }),
                "flat_map",
            ),
            rep,
            ts,
        },
        "inspect" => St { s: b.probe(s.inspect(|_x: &i64| {}), "inspect"), rep, ts },
        "richmap" => {
            let mut c = 0i64;
            St {
                s: b.probe(
                    s.rich_map(move |x: i64| {
                        c += 1;
                        (x + c).rem_euclid(MODV)
                    }),
                    "rich_map",
                ),
                rep,
                ts,
            }
        }
        "stmap" => match state {
            Some(h) => {
                let h = h.clone();
                St { s: b.probe(s.map(move |x: i64| (x + h.get().1.rem_euclid(7)).rem_euclid(MODV)), "map(state)"), rep, ts }
            }
            None => St { s: b.probe(s.map(|x: i64| (x + 1).rem_euclid(MODV)), "map"), rep, ts },
        },
        "shuffle" => St { s: b.probe(s.shuffle(), "shuffle"), rep: Rep::U, ts },
        "bcast" => {
            let s = b.probe(s.broadcast(), "broadcast");
            // inside loop bodies the copies are thinned out again (an `iterate` would multiply the
            // data by the number of replicas in every round)
            let s = if in_loop { b.probe(s.filter(|x: &i64| x.rem_euclid(4) == 0), "filter") } else { s };
            b.cap(St { s, rep: Rep::U, ts }, 400)
        }
        "repl" => {
            // Limited(k) / Host over a forward link only from an unlimited block (F8: a block with more
            // replicas than its only-one producer has replicas without producer)
            let want = w.get(1).map(|s| s.as_str()).unwrap_or("one");
            match (want, rep) {
                ("2", Rep::U) if !in_loop => St { s: b.probe(s.replication(Replication::new_limited(2)), "replication(2)"), rep: Rep::L2, ts },
                ("host", Rep::U) if !in_loop => St { s: b.probe(s.replication(Replication::new_host()), "replication(host)"), rep: Rep::Host, ts },
                _ => St { s: b.probe(s.replication(Replication::One), "replication(one)"), rep: Rep::One, ts },
            }
        }
        "fold" => St { s: b.probe(s.fold(0i64, |a: &mut i64, x: i64| *a = (*a + x).rem_euclid(MODV)), "fold"), rep: Rep::One, ts },
        "folda" => St {
            s: b.probe(
                s.fold_assoc(0i64, |a: &mut i64, x: i64| *a = (*a + x).rem_euclid(MODV), |a: &mut i64, x: i64| *a = (*a + x).rem_euclid(MODV)),
                "fold_assoc",
            ),
            rep: Rep::One,
            ts,
        },
        "reduce" => St { s: b.probe(s.reduce(|a: i64, x: i64| (a + x).rem_euclid(MODV)), "reduce"), rep: Rep::One, ts },
        "reducea" => St { s: b.probe(s.reduce_assoc(|a: i64, x: i64| (a + x).rem_euclid(MODV)), "reduce_assoc"), rep: Rep::One, ts },
        "kfold" => {
            let k = b.probe_k(s.group_by(key3), "group_by");
            let k = b.probe_k(k.inspect(|_kv: &(i64, i64)| {}), "keyed-inspect");
            let k = b.probe_k(k.fold(0i64, |a: &mut i64, x: i64| *a = (*a + x).rem_euclid(MODV)), "keyed-fold");
            St { s: b.probe(k.drop_key(), "drop_key"), rep: Rep::U, ts }
        }
        "kreduce" => {
            let k = b.probe_k(s.group_by(key3), "group_by");
            let k = b.probe_k(k.map(|(_k, x): (&i64, i64)| (x + 1).rem_euclid(MODV)), "keyed-map");
            let k = b.probe_k(k.reduce(|a: &mut i64, x: i64| *a = (*a + x).rem_euclid(MODV)), "keyed-reduce");
            let u = b.probe(k.unkey(), "unkey");
            St { s: b.probe(u.map(|(k, v): (i64, i64)| (k + 3 * v).rem_euclid(MODV)), "map"), rep: Rep::U, ts }
        }
        "gbcount" => {
            let k = b.probe_k(s.group_by_count(key3), "group_by_count");
            let u = b.probe(k.unkey(), "unkey");
            St { s: b.probe(u.map(|(k, c): (i64, usize)| k + 3 * c as i64), "map"), rep: Rep::U, ts }
        }
        "gbfold" => {
            let k = b.probe_k(
                s.group_by_fold(key3, 0i64, |a: &mut i64, x: i64| *a = (*a + x).rem_euclid(MODV), |a: &mut i64, x: i64| *a = (*a + x).rem_euclid(MODV)),
                "group_by_fold",
            );
            St { s: b.probe(k.drop_key(), "drop_key"), rep: Rep::U, ts }
        }
        "gbreduce" => {
            let k = b.probe_k(s.group_by_reduce(key3, |a: &mut i64, x: i64| *a = (*a + x).rem_euclid(MODV)), "group_by_reduce");
            St { s: b.probe(k.drop_key(), "drop_key"), rep: Rep::U, ts }
        }
        "keyby" => {
            let k = b.probe_k(s.key_by(key3), "key_by");
            let k = b.probe_k(k.filter(|(_k, x): &(i64, i64)| x.rem_euclid(5) != 0), "keyed-filter");
            let k = b.probe_k(k.fold(0i64, |a: &mut i64, x: i64| *a = (*a + x).rem_euclid(MODV)), "keyed-fold");
            St { s: b.probe(k.drop_key(), "drop_key"), rep, ts }
        }
        "cwin" => {
            let size = p_usize(w, 1, 3, 1, 6);
            let slide = p_usize(w, 2, size, 1, size);
            let k = b.probe_k(s.group_by(key3), "group_by");
            let k = b.probe_k(
                k.window(CountWindow::sliding(size, slide)).fold(0i64, |a: &mut i64, x: i64| *a = (*a + x).rem_euclid(MODV)),
                "count-window",
            );
            St { s: b.probe(k.drop_key(), "drop_key"), rep: Rep::U, ts }
        }
        "cwinall" => {
            let size = p_usize(w, 1, 3, 1, 6);
            let k = b.probe_k(
                s.window_all(CountWindow::tumbling(size)).fold(0i64, |a: &mut i64, x: i64| *a = (*a + x).rem_euclid(MODV)),
                "count-window-all",
            );
            St { s: b.probe(k.drop_key(), "drop_key"), rep: Rep::One, ts }
        }
        "etwin" | "etwinall" => {
            let size = p_usize(w, 1, 30, 1, 200) as i64;
            let slide = p_usize(w, 2, size as usize, 1, size as usize) as i64;
            let wk = p_usize(w, 3, 2, 1, 20);
            let st = add_ts(b, St { s, rep, ts }, wk, true, "add_timestamps");
            let (k, rep2) = if name == "etwin" {
                let k = b.probe_k(st.s.group_by(key3), "group_by");
                let k = b.probe_k(
                    k.window(EventTimeWindow::sliding(size, slide)).fold(0i64, |a: &mut i64, x: i64| *a = (*a + x).rem_euclid(MODV)),
                    "event-time-window",
                );
                (b.probe(k.drop_key(), "drop_key"), Rep::U)
            } else {
                let k = b.probe_k(
                    st.s.window_all(EventTimeWindow::tumbling(size)).fold(0i64, |a: &mut i64, x: i64| *a = (*a + x).rem_euclid(MODV)),
                    "event-time-window-all",
                );
                (b.probe(k.drop_key(), "drop_key"), Rep::One)
            };
            St { s: b.probe(k.drop_timestamps(), "drop_timestamps"), rep: rep2, ts: false }
        }
        "reorder" => {
            let wk = p_usize(w, 1, 2, 1, 20);
            let st = add_ts(b, St { s, rep, ts }, wk, true, "add_timestamps");
            let r = b.probe(st.s.reorder(), "reorder");
            St { s: b.probe(r.drop_timestamps(), "drop_timestamps"), rep: st.rep, ts: false }
        }
        "addts" if !in_loop => add_ts(b, St { s, rep, ts }, p_usize(w, 1, 3, 1, 50), false, "add_timestamps"),
        "dropts" => St { s: b.probe(s.drop_timestamps(), "drop_timestamps"), rep, ts: false },
        "merge" | "zip" | "join" => binary(b, St { s, rep, ts }, w, state),
        _ => St { s, rep, ts },
    }
}

/// the simple stages usable on one side of a binary stage
const BRANCH: &[&str] = &["id", "map", "filter", "flatmap", "inspect", "shuffle", "fold", "kfold", "richmap"];

fn branch(b: &mut B, st: St, name: &str, state: Option<&IterationStateHandle<LState>>) -> St {
    if name != "id" && BRANCH.contains(&name) {
        apply(b, st, &[name.to_string()], state)
    } else {
        st
    }
}

fn binary(b: &mut B, st: St, w: &[String], state: Option<&IterationStateHandle<LState>>) -> St {
    let name = w[0].as_str();
    let (ln, rn) = if name == "join" {
        (w.get(4).cloned().unwrap_or_default(), w.get(5).cloned().unwrap_or_default())
    } else {
        (w.get(1).cloned().unwrap_or_default(), w.get(2).cloned().unwrap_or_default())
    };
    // both local join algorithms stop with a panic on Timestamped / Watermark elements
    let st = if name == "join" { b.drop_ts_auto(st) } else { st };
    let (rep, ts) = (st.rep, st.ts);
    let mut v = st.s.split(2);
    let r = v.pop().unwrap();
    let l = v.pop().unwrap();
    let l = St { s: b.probe(l, "split"), rep, ts };
    let r = St { s: b.probe(r, "split"), rep, ts };
    let mut l = branch(b, l, &ln, state);
    let mut r = branch(b, r, &rn, state);
    match name {
        "merge" | "zip" => {
            // both sides of a Y connection need the same replication
            if l.rep != r.rep {
                if l.rep != Rep::U {
                    l = b.shuffle_auto(l);
                }
                if r.rep != Rep::U {
                    r = b.shuffle_auto(r);
                }
            }
            if name == "merge" {
                St { s: b.probe(l.s.merge(r.s), "merge"), rep: l.rep, ts }
            } else {
                let z = b.probe(l.s.zip(r.s), "zip");
                St { s: b.probe(z.map(|(x, y): (i64, i64)| (x + y).rem_euclid(MODV)), "map"), rep: Rep::One, ts }
            }
        }
        _ => {
            let ship = w.get(1).map(|s| s.as_str()).unwrap_or("hash");
            let local = w.get(2).map(|s| s.as_str()).unwrap_or("lh");
            let var = w.get(3).map(|s| s.as_str()).unwrap_or("inner");
            // the key is the value itself; both inputs are bounded (equal values pair up quadratically)
            let l = b.cap(l, 50);
            let r = b.cap(r, 50);
            let j = l.s.join_with(r.s, |x: &i64| *x, |x: &i64| *x);
            let o = |x: Option<i64>| x.unwrap_or(7);
            if ship == "bcast" {
                let j = j.ship_broadcast_right();
                let s = match (local, var) {
                    ("sm", "inner") => b.probe(b_map_in(j.local_sort_merge().inner()), "join(bcast,sort-merge,inner)+map"),
                    ("sm", _) => b.probe(j.local_sort_merge().left().map(move |(_k, (x, y)): (i64, (i64, Option<i64>))| (x + o(y)).rem_euclid(MODV)), "join(bcast,sort-merge,left)+map"),
                    (_, "inner") => b.probe(b_map_in(j.local_hash().inner()), "join(bcast,hash,inner)+map"),
                    _ => b.probe(j.local_hash().left().map(move |(_k, (x, y)): (i64, (i64, Option<i64>))| (x + o(y)).rem_euclid(MODV)), "join(bcast,hash,left)+map"),
                };
                St { s, rep: l.rep, ts }
            } else {
                let j = j.ship_hash();
                macro_rules! fin {
                    ($k:expr, $what:expr, $f:expr) => {{
                        let k = b.probe_k($k, $what);
                        let k = b.probe_k(k.map($f), "keyed-map");
                        b.probe(k.drop_key(), "drop_key")
                    }};
                }
                let fi = |(_k, (x, y)): (&i64, (i64, i64))| (x + y).rem_euclid(MODV);
                let fl = move |(_k, (x, y)): (&i64, (i64, Option<i64>))| (x + o(y)).rem_euclid(MODV);
                let fo = move |(_k, (x, y)): (&i64, (Option<i64>, Option<i64>))| (o(x) + o(y)).rem_euclid(MODV);
                let s = match (local, var) {
                    ("sm", "inner") => fin!(j.local_sort_merge().inner(), "join(hash,sort-merge,inner)", fi),
                    ("sm", "left") => fin!(j.local_sort_merge().left(), "join(hash,sort-merge,left)", fl),
                    ("sm", _) => fin!(j.local_sort_merge().outer(), "join(hash,sort-merge,outer)", fo),
                    (_, "inner") => fin!(j.local_hash().inner(), "join(hash,hash,inner)", fi),
                    (_, "left") => fin!(j.local_hash().left(), "join(hash,hash,left)", fl),
                    _ => fin!(j.local_hash().outer(), "join(hash,hash,outer)", fo),
                };
                St { s, rep: Rep::U, ts }
            }
        }
    }
}

fn b_map_in<Op: Operator<Out = (i64, (i64, i64))> + 'static>(s: Stream<Op>) -> Stream<impl Operator<Out = i64>> {
    s.map(|(_k, (x, y)): (i64, (i64, i64))| (x + y).rem_euclid(MODV))
}

fn loop_fns(run: u64, id: usize, stop: i64) -> (
    impl Fn(&mut i64, i64) + Send + Clone + 'static,
    impl Fn(&mut LState, i64) + Send + Clone + 'static,
    impl Fn(&mut LState) -> bool + Send + Clone + 'static,
) {
    (
        |d: &mut i64, x: i64| *d = (*d + x).rem_euclid(MODV),
        |s: &mut LState, d: i64| s.1 = (s.1 + d).rem_euclid(MODV),
        move |s: &mut LState| {
            s.0 += 1;
            LOOPS.lock().unwrap().entry((run, id)).or_default().1 += 1;
            s.0 < stop
        },
    )
}

/// the state stream of a loop: probe, record the round counter of every final state, back to i64
fn state_stream<Op: Operator<Out = LState> + 'static>(b: &mut B, s: Stream<Op>, id: usize, what: &str) -> P {
    let s = b.probe(s, what);
    let run = b.run;
    let s = s.map(move |st: LState| {
        LOOPS.lock().unwrap().entry((run, id)).or_default().0.push(st.0);
        (st.0 * 1000 + st.1.rem_euclid(1000)).rem_euclid(MODV)
    });
    b.probe(s, "map(final-state)")
}

fn build_loop(b: &mut B, st: St, iterate: bool, max: usize, stop: i64, mode: &str, body: &[Stage]) -> St {
    // IterationEnd accepts plain items only; loops need an unlimited block in front
    let mut st = b.drop_ts_auto(st);
    if st.rep != Rep::U {
        st = b.shuffle_auto(st);
    }
    let id = b.next_loop;
    b.next_loop += 1;
    b.loops.push((id, if iterate { "iterate" } else { "replay" }, b.path.last().copied(), max, stop));
    let (lf, gf, cf) = loop_fns(b.run, id, stop);
    // the body closure has to be 'static (the returned `impl Operator` captures its type): the
    // builder state is moved into a cell for the duration of the call
    let cell = Rc::new(RefCell::new(std::mem::take(b)));
    let cell2 = cell.clone();
    let body: Vec<Stage> = body.to_vec();
    let res = if !iterate {
        let out = st.s.replay(
            max,
            (0i64, 0i64),
            move |s, h| {
                let mut guard = cell2.borrow_mut();
                let b = &mut *guard;
                b.path.push(id);
                let s = b.probe(s, "Replay");
                let r = build_stages(b, St { s, rep: Rep::U, ts: false }, &body, Some(&h));
                let r = b.drop_ts_auto(r);
                let s = b.probe(r.s.inspect(|_x: &i64| {}), "body-end");
                b.path.pop();
                s
            },
            lf,
            gf,
            cf,
        );
        *b = cell.take();
        St { s: state_stream(b, out, id, "replay-state"), rep: Rep::U, ts: false }
    } else {
        let (state, items) = st.s.iterate(
            max,
            (0i64, 0i64),
            move |s, h| {
                let mut guard = cell2.borrow_mut();
                let b = &mut *guard;
                b.path.push(id);
                let s = b.probe(s, "Iterate");
                let r = build_stages(b, St { s, rep: Rep::U, ts: false }, &body, Some(&h));
                let mut r = b.drop_ts_auto(r);
                // the feedback link is an only-one connection into the unlimited Iterate block
                if r.rep != Rep::U {
                    r = b.shuffle_auto(r);
                }
                let r = b.cap(r, 400);
                let s = b.probe(r.s.inspect(|_x: &i64| {}), "body-end");
                b.path.pop();
                s
            },
            lf,
            gf,
            cf,
        );
        *b = cell.take();
        let state = state_stream(b, state, id, "iterate-state");
        let items = b.probe(items, "iterate-items");
        match mode {
            "items" => {
                let s = b.probe(state.inspect(|_x: &i64| {}), "before-sink:for_each");
                s.for_each(|_x: i64| {});
                St { s: items, rep: Rep::U, ts: false }
            }
            "both" => St { s: b.probe(items.merge(state), "merge"), rep: Rep::U, ts: false },
            _ => {
                let s = b.probe(items.inspect(|_x: &i64| {}), "before-sink:for_each");
                s.for_each(|_x: i64| {});
                St { s: state, rep: Rep::U, ts: false }
            }
        }
    };
    res
}

fn build_stages(b: &mut B, mut st: St, stages: &[Stage], state: Option<&IterationStateHandle<LState>>) -> St {
    for stage in stages {
        st = match stage {
            Stage::S(w) => apply(b, st, w, state),
            Stage::Loop { iterate, max, stop, mode, body } => build_loop(b, st, *iterate, *max, *stop, mode, body),
        };
    }
    st
}

fn build(ctx: &StreamContext, run: u64, c: &Case) {
    let h = &c.header;
    let batch = h.get(2).and_then(|s| Batch::parse(s)).unwrap_or(Batch::Default);
    let n: i64 = h.get(4).and_then(|s| s.parse().ok()).unwrap_or(0);
    let mut b = B { run, labels: vec![], next_loop: 0, path: vec![], loops: vec![] };
    let st = if h.get(3).map(|s| s.as_str()) == Some("par") {
        let s = ctx.stream_par_iter(0..n);
        let s = match batch.mode() {
            Some(m) => erase(s.batch_mode(m)),
            None => erase(s),
        };
        St { s: b.probe(s, "source:par_iter"), rep: Rep::U, ts: false }
    } else {
        let s = ctx.stream_iter(0..n);
        let s = match batch.mode() {
            Some(m) => erase(s.batch_mode(m)),
            None => erase(s),
        };
        St { s: b.probe(s, "source:iter"), rep: Rep::One, ts: false }
    };
    let st = match h.get(5).and_then(|s| s.strip_prefix("ts")).and_then(|k| k.parse::<usize>().ok()) {
        Some(k) => add_ts(&mut b, st, k, false, "add_timestamps"),
        None => st,
    };
    let mut i = 0;
    let (stages, _) = parse_block(&c.ops, &mut i, 0);
    let st = build_stages(&mut b, st, &stages, None);
    match h.get(6).map(|s| s.as_str()).unwrap_or("vec") {
        "foreach" => {
            let s = b.probe(st.s.inspect(|_x: &i64| {}), "before-sink:for_each");
            s.for_each(|_x: i64| {});
        }
        "count" => {
            let s = b.probe(st.s.inspect(|_x: &i64| {}), "before-sink:collect_count");
            let _ = s.collect_count();
        }
        "vec1" => {
            // what arrives at a single-replica block, like the one `collect_vec` puts its sink into
            let s = b.probe(st.s.replication(Replication::One), "before-sink:replication(one)+collect_vec");
            let _ = s.collect_vec();
        }
        _ => {
            let s = b.probe(st.s.inspect(|_x: &i64| {}), "before-sink:collect_vec");
            let _ = s.collect_vec();
        }
    }
    LABELS.lock().unwrap().insert(run, b.labels.clone());
    let mut g = LOOPS.lock().unwrap();
    for l in &b.loops {
        g.entry((run, l.0)).or_default();
    }
    drop(g);
    LOOP_DESCR.lock().unwrap().insert(run, b.loops.clone());
}

static LOOP_DESCR: Mutex<BTreeMap<u64, Vec<(usize, &'static str, Option<usize>, usize, i64)>>> = Mutex::new(BTreeMap::new());

// ------------------------------------------------------------------------------------------------
// running a case

fn is_infra(m: &str) -> bool {
    let m = m.to_lowercase();
    m.contains("failed to bind") || m.contains("address already in use") || m.contains("addrinuse")
}

fn fmt_seq(v: &[(u8, u32)]) -> String {
    if v.is_empty() {
        return "-".into();
    }
    v.iter()
        .map(|(k, n)| if *n == 1 { KINDS[*k as usize].to_string() } else { format!("{}*{n}", KINDS[*k as usize]) })
        .collect::<Vec<_>>()
        .join(",")
}

enum Res {
    Lines(Vec<String>),
    Infra,
}

/// The region of the known C04 findings F17/F18 (the feedback cycle of an `iterate` is drained only from
/// `Iterate::next`): a small batch mode and an `iterate` body with an all-to-all connection or an
/// expanding stage. Such cases are still generated and run, under a shorter watchdog.
fn f18_region(c: &Case) -> bool {
    let small = match c.header.get(2).and_then(|s| Batch::parse(s)) {
        Some(Batch::Single) => true,
        Some(Batch::Fixed(n)) => n <= 3,
        Some(Batch::Adaptive(n, _)) => n <= 8,
        _ => false,
    };
    let mut stack: Vec<bool> = vec![];
    let mut exchange = false;
    for w in &c.ops {
        match w.first().map(|s| s.as_str()) {
            Some("loop") if stack.len() < 2 => stack.push(w.get(1).map(|s| s == "iterate").unwrap_or(false)),
            Some("endloop") => {
                stack.pop();
            }
            Some("s") if stack.contains(&true) => {
                let local = ["map", "filter", "inspect", "richmap", "stmap", "dropts", "keyby"];
                if !w.get(1).map(|n| local.contains(&n.as_str())).unwrap_or(true) {
                    exchange = true;
                }
            }
            _ => {}
        }
    }
    small && exchange
}

fn run_once(c: &Case) -> Res {
    let cfg = c.header.get(1).and_then(|s| Config::parse(s)).unwrap_or(Config::Local(1));
    let run = RUN.fetch_add(1, Ordering::SeqCst);
    let log_start = PANICS.lock().unwrap().len();
    let case = c.clone();
    let watchdog = Duration::from_secs(if f18_region(c) { 10 } else { 30 });
    let (res, prefix) = run_hosts(&cfg, next_uniq(), move |ctx| build(ctx, run, &case), |_| (), watchdog);
    let log: Vec<String> = PANICS.lock().unwrap()[log_start..].to_vec();
    let mine = |m: &String| is_infra(m) && prefix.as_ref().map_or(false, |p| m.contains(p.as_str()));
    let mut blocked = false;
    let mut panic: Option<String> = None;
    for r in &res {
        match r {
            None => blocked = true,
            Some(Err(m)) => {
                if is_infra(m) {
                    return Res::Infra;
                }
                panic.get_or_insert(m.clone());
            }
            Some(Ok(())) => {}
        }
    }
    if log.iter().any(mine) {
        return Res::Infra;
    }
    let mut out = vec![];
    if let Some(m) = panic {
        let first = log.iter().find(|x| !x.contains("called `Result::unwrap()`") && !x.contains("Any { .. }")).cloned();
        let m = if m.contains("called `Result::unwrap()`") || m.contains("Any { .. }") { first.unwrap_or(m) } else { m };
        if std::env::var("PROBE_DEBUG").is_ok() {
            eprintln!("# panic in run {run}: {m}");
        }
        out.push(format!("panic:{}", classify_panic(&m)));
    } else if blocked {
        out.push("blocked".into());
    }
    let labels = LABELS.lock().unwrap().remove(&run).unwrap_or_default();
    let recs: Vec<((usize, (u64, u64, u64)), Rec)> = {
        let mut g = RECS.lock().unwrap();
        let keys: Vec<_> = g.range((run, 0, (0, 0, 0))..(run + 1, 0, (0, 0, 0))).map(|(k, _)| *k).collect();
        keys.into_iter().map(|k| ((k.1, k.2), g.remove(&k).unwrap())).collect()
    };
    for ((id, (bl, h, r)), rec) in recs {
        let pos = labels.get(id).cloned().unwrap_or_else(|| "?".into());
        let seq = fmt_seq(&rec.lock().unwrap());
        out.push(format!("p {id} {pos} b{bl}h{h}r{r} {seq}"));
    }
    let descr = LOOP_DESCR.lock().unwrap().remove(&run).unwrap_or_default();
    let mut g = LOOPS.lock().unwrap();
    for (id, kind, parent, max, stop) in descr {
        let (finals, calls) = g.remove(&(run, id)).unwrap_or_default();
        let parent = parent.map(|p| p.to_string()).unwrap_or_else(|| "-".into());
        out.push(format!(
            "loop {id} {kind} {parent} {max} {stop} execs {} rounds {} calls {calls}",
            finals.len(),
            finals.iter().sum::<i64>()
        ));
    }
    Res::Lines(out)
}

fn exec(c: &Case) -> Vec<String> {
    match run_once(c) {
        Res::Lines(l) => l,
        // an address clash of the in-process multi-host rig: once more on fresh addresses
        Res::Infra => match run_once(c) {
            Res::Lines(l) => l,
            Res::Infra => vec!["infra".into()],
        },
    }
}

// ------------------------------------------------------------------------------------------------
// generator

struct G<'a> {
    rng: &'a mut Rng,
    ops: Vec<Vec<String>>,
    /// rough upper bound of the number of elements
    size: i64,
}

fn sw(words: &[&str]) -> Vec<String> {
    words.iter().map(|s| s.to_string()).collect()
}

impl G<'_> {
    fn stateless(&mut self) {
        let s = *self.rng.pick(&["map", "map", "filter", "flatmap", "inspect", "richmap", "stmap"]);
        self.ops.push(sw(&["s", s]));
    }
    fn repart(&mut self, in_loop: bool) {
        let s: Vec<&str> = match self.rng.below(7) {
            0 | 1 | 2 => vec!["s", "shuffle"],
            3 => {
                if !in_loop {
                    self.size *= 4;
                }
                vec!["s", "bcast"]
            }
            4 => vec!["s", "repl", "one"],
            5 => vec!["s", "repl", if in_loop { "one" } else { "2" }],
            _ => vec!["s", "repl", if in_loop { "one" } else { "host" }],
        };
        self.ops.push(sw(&s));
    }
    fn stateful(&mut self) {
        let r = self.rng.below(16);
        let a = self.rng.range(1, 5).to_string();
        let bsl = self.rng.range(1, 5).to_string();
        let size = (*self.rng.pick(&[5, 20, 30, 100])).to_string();
        let slide = (*self.rng.pick(&[5, 10, 30])).to_string();
        let wk = (*self.rng.pick(&[1, 2, 5])).to_string();
        let s: Vec<&str> = match r {
            0 => vec!["s", "fold"],
            1 => vec!["s", "folda"],
            2 => vec!["s", "reduce"],
            3 => vec!["s", "reducea"],
            4 => vec!["s", "kfold"],
            5 => vec!["s", "kreduce"],
            6 => vec!["s", "gbcount"],
            7 => vec!["s", "gbfold"],
            8 => vec!["s", "gbreduce"],
            9 => vec!["s", "keyby"],
            10 | 11 => vec!["s", "cwin", &a, &bsl],
            12 => vec!["s", "cwinall", &a],
            13 => vec!["s", "etwin", &size, &slide, &wk],
            14 => vec!["s", "etwinall", &size],
            _ => vec!["s", "reorder", &wk],
        };
        if matches!(r, 0..=3) {
            self.size = 1;
        }
        self.ops.push(sw(&s));
    }
    fn binary(&mut self) {
        let l = *self.rng.pick(BRANCH);
        let r = *self.rng.pick(BRANCH);
        match self.rng.below(6) {
            0 | 1 => self.ops.push(sw(&["s", "merge", l, r])),
            2 => self.ops.push(sw(&["s", "zip", l, r])),
            _ => {
                let ship = *self.rng.pick(&["hash", "hash", "bcast"]);
                let local = *self.rng.pick(&["lh", "sm"]);
                let var = *self.rng.pick(&["inner", "left", "outer"]);
                self.ops.push(sw(&["s", "join", ship, local, var, l, r]));
            }
        }
    }
    fn stage(&mut self, depth: usize) {
        match self.rng.below(20) {
            0..=4 => self.stateless(),
            5..=7 => self.repart(depth > 0),
            8..=12 => self.stateful(),
            13..=15 => self.binary(),
            _ if depth < 2 && (depth == 0 || self.rng.chance(1, 3)) && self.size <= 450 => self.lp(depth),
            _ => self.stateful(),
        }
    }
    fn lp(&mut self, depth: usize) {
        let kind = if self.rng.chance(1, 2) { "replay" } else { "iterate" };
        let max = self.rng.range(1, 4);
        // mostly the bound decides, sometimes the condition stops earlier
        let stop = if self.rng.chance(1, 3) { self.rng.range(1, 4) } else { 9 };
        self.ops.push(sw(&["loop", kind, &max.to_string(), &stop.to_string()]));
        let n = self.rng.range(0, if depth == 0 { 4 } else { 2 });
        for _ in 0..n {
            self.stage(depth + 1);
        }
        let mode = *self.rng.pick(&["state", "items", "both"]);
        self.ops.push(sw(&["endloop", mode]));
        if kind == "replay" || mode == "state" {
            self.size = 1;
        }
    }
}

fn gen(rng: &mut Rng, i: usize) -> Case {
    let cfg = match rng.below(10) {
        0 => "L1".to_string(),
        1 | 2 => "L2".to_string(),
        3 => "L3".to_string(),
        4 | 5 => "L4".to_string(),
        6 => "R1:1".to_string(),
        7 => "R2:1".to_string(),
        8 => "R1:2".to_string(),
        _ => "R2:2".to_string(),
    };
    let bm = match rng.below(8) {
        0 | 1 => "def".to_string(),
        2 => "single".to_string(),
        3 => "f1".to_string(),
        4 => "f3".to_string(),
        _ => format!("a{}:{}", rng.pick(&[1, 2, 4, 8]), rng.range(1, 5)),
    };
    let src = if rng.chance(1, 2) { "iter" } else { "par" };
    let n = match rng.below(8) {
        0 => 0,
        1 => 1,
        2 | 3 | 4 => rng.range(2, 9),
        _ => rng.range(100, 400),
    };
    let ts = if rng.chance(1, 4) { format!("ts{}", rng.pick(&[1, 3, 10])) } else { "nots".to_string() };
    let sink = *rng.pick(&["vec", "vec", "vec1", "foreach", "count"]);
    let mut c = Case::new(&["probe", &cfg, &bm, src, &n.to_string(), &ts, sink]);
    let mut g = G { rng, ops: vec![], size: n };
    // classes: every third case has a loop for sure, every third none of its own accord
    let steps = g.rng.range(1, 6);
    let loop_at = if i % 3 == 0 { g.rng.range(0, steps - 1) } else { -1 };
    for k in 0..steps {
        if k == loop_at {
            g.lp(0);
        } else {
            g.stage(0);
        }
    }
    c.ops = g.ops;
    // the region of the known C04 deadlocks F17/F18 (see `f18_region`) stays below ~5 % of the cases:
    // half of the large-input cases in it run with the default batch size instead
    if n >= 100 && f18_region(&c) && rng.chance(1, 2) {
        c.header[2] = "def".into();
    }
    c
}

// ------------------------------------------------------------------------------------------------

fn main() {
    let args = parse_args();
    std::panic::set_hook(Box::new(|info| {
        let msg = if let Some(s) = info.payload().downcast_ref::<String>() {
            s.clone()
        } else if let Some(s) = info.payload().downcast_ref::<&str>() {
            s.to_string()
        } else {
            "unknown".into()
        };
        if std::env::var("PROBE_DEBUG").is_ok() {
            eprintln!("# panic at {:?}: {msg}", info.location().map(|l| format!("{}:{}", l.file(), l.line())));
        }
        if let Ok(mut l) = PANICS.lock() {
            l.push(msg);
        }
    }));
    let cases: Vec<(String, Case)> = match &args.replay {
        Some(p) => read_cases(p),
        None => {
            let mut rng = Rng::new(args.seed);
            (0..args.cases)
                .map(|i| {
                    let mut r = rng.fork();
                    (format!("probe-{}-{i}", args.seed), gen(&mut r, i))
                })
                .collect()
        }
    };
    let threads: usize = std::env::var("PROBE_THREADS").ok().and_then(|s| s.parse().ok()).unwrap_or(2);
    let n = cases.len();
    let cases = Arc::new(cases);
    let next = Arc::new(AtomicUsize::new(0));
    let results: Arc<Mutex<HashMap<usize, Vec<String>>>> = Arc::new(Mutex::new(HashMap::new()));
    let mut handles = vec![];
    for _ in 0..threads.max(1).min(n.max(1)) {
        let (cases, next, results) = (cases.clone(), next.clone(), results.clone());
        handles.push(std::thread::spawn(move || loop {
            let i = next.fetch_add(1, Ordering::SeqCst);
            if i >= cases.len() {
                break;
            }
            let r = guarded(exec, &cases[i].1);
            results.lock().unwrap().insert(i, r);
        }));
    }
    for h in handles {
        let _ = h.join();
    }
    let out = std::io::stdout();
    let mut out = std::io::BufWriter::new(out.lock());
    let results = results.lock().unwrap();
    for (i, (id, case)) in cases.iter().enumerate() {
        writeln!(out, "case {id} {}", case.header.join(" ")).unwrap();
        for op in &case.ops {
            writeln!(out, "{}", op.join(" ")).unwrap();
        }
        for r in results.get(&i).cloned().unwrap_or_else(|| vec!["panic:harness".into()]) {
            writeln!(out, "> {r}").unwrap();
        }
        writeln!(out, "end").unwrap();
    }
    out.flush().unwrap();
    drop(out);
    // detached (blocked) engine threads must not keep the process alive
    std::process::exit(0);
}
