//! C05, engine level: the stream grammar observed at EVERY operator boundary of real pipelines.
//!
//! A `Probe<Op>` operator (public `Operator` trait, inserted with the public `Stream::add_operator`;
//! for keyed streams through the public field `KeyedStream.0`) forwards every element unchanged and
//! records the KIND of every element its `next()` returns (I, T<ts>, W<ts>, FB, FAR, TERM; run-length
//! compressed) under `(run, probe id, replica coordinate)`; the coordinate is read from the
//! `ExecutionMetadata` in `setup`. A generator builds random pipelines through the public API with a
//! probe after every operator the API lets us get behind: right after the source, after every
//! stateless / re-partitioning / stateful / binary stage (also between the operators of a composite
//! stage such as `group_by -> fold -> drop_key`), as first and last operator of every loop body (i.e.
//! directly after `Replay` / `Iterate` and directly in front of the loop's own fold + `IterationEnd`),
//! on the state and items streams of the loops and directly in front of every sink.
//!
//! header: `probe <config> <batch> <iter|par> <n> <nots|ts<k>[:<late>[:<jit>]]> <vec|vec1|foreach|count>`
//!   config `L<cores>` | `R<c0>:<c1>` (in-process hosts over loopback TCP, see `nvh::e2e::run_hosts`)
//!   batch  `def|single|f<n>|a<n>:<ms>`; `ts<k>:<late>:<jit>`: `add_timestamps` right after the source (see
//!   `add_ts`: contract-respecting timestamps, possibly out of order, a watermark `ts - late` after every k-th element);
//!   switch `--ts`: generator biased towards timestamped pipelines (C06); watermark
//!   after every k-th element
//! ops (every subset of the op lines is a valid case: the builder repairs what a stage needs —
//!   `shuffle(auto)` in front of a loop / at the end of an `iterate` body / to equalise the two sides of a
//!   merge or zip, `drop_timestamps(auto)` in front of loops and `add_timestamps`; an unmatched `loop` is
//!   closed at the end, an unmatched `endloop` ignored):
//!   `s <stage> <params…>`   one stage, see `apply`
//!   `loop <replay|iterate> <max> <stop>` … `endloop <state|items|both>`   the loop state is
//!   `(rounds, sum)`: `loop_condition` increments `rounds` and continues while `rounds < stop`
//! outputs:
//!   `p <probe id> <position> <replica> <sequence>`  position = `after:<operator>` outside loops,
//!       `after:<operator>/in-loop:<l1>.<l2>` inside the body of loop l2 nested in l1; replica =
//!       `b<block>h<host>r<replica>`; sequence = comma separated tokens `I`, `T<ts>`, `W<ts>`, `FB`, `FAR`, `TERM`; `tok*n` = n times, `-` = empty
//!   `loop <id> <kind> <parent|-> <max> <stop> execs <e> rounds <r> calls <c>`  e = number of final states
//!       seen on the loop's state stream, r = sum of their round counters, c = calls of loop_condition
//!   `blocked` (30 s watchdog; 10 s in the region of the known C04 findings F17/F18, see `f18_region`) | `panic:<class>` | `infra`
use std::cell::RefCell;
use std::collections::{BTreeMap, HashMap};
use std::rc::Rc;
use std::fmt::{self, Display};
use std::io::Write;
use std::sync::atomic::{AtomicU64, AtomicUsize, Ordering};
use std::sync::{Arc, Mutex};
use std::time::Duration;

use nvh::e2e::{erase, next_uniq, run_hosts, Batch, BoxOp, Config};
use nvh::*;
use renoir::operator::window::{CountWindow, EventTimeWindow};
use renoir::operator::{Operator, StreamElement};
use renoir::structure::{BlockStructure, OperatorStructure};
use renoir::{ExecutionMetadata, IterationStateHandle, KeyedStream, Replication, Stream, StreamContext};

// ------------------------------------------------------------------------------------------------
// the probe

/// (kind, timestamp (0 for kinds without one), repetitions)
type Rec = Arc<Mutex<Vec<(u8, i64, u32)>>>;
/// (run, probe id, (block, host, replica)) -> run-length compressed kinds
static RECS: Mutex<BTreeMap<(u64, usize, (u64, u64, u64)), Rec>> = Mutex::new(BTreeMap::new());
/// run -> probe id -> position
static LABELS: Mutex<BTreeMap<u64, Vec<String>>> = Mutex::new(BTreeMap::new());
/// (run, loop) -> (round counters of the final states, calls of loop_condition)
static LOOPS: Mutex<BTreeMap<(u64, usize), (Vec<i64>, u64)>> = Mutex::new(BTreeMap::new());
static RUN: AtomicU64 = AtomicU64::new(1);
static PANICS: Mutex<Vec<String>> = Mutex::new(Vec::new());

const KINDS: [&str; 6] = ["I", "T", "W", "FB", "FAR", "TERM"];

fn kind_of<T>(e: &StreamElement<T>) -> (u8, i64) {
    match e {
        StreamElement::Item(_) => (0, 0),
        StreamElement::Timestamped(_, t) => (1, *t),
        StreamElement::Watermark(t) => (2, *t),
        StreamElement::FlushBatch => (3, 0),
        StreamElement::FlushAndRestart => (4, 0),
        StreamElement::Terminate => (5, 0),
    }
}

#[derive(Clone)]
struct Probe<Op: Operator> {
    prev: Op,
    run: u64,
    id: usize,
    rec: Option<Rec>,
}

impl<Op: Operator> Display for Probe<Op> {
    fn fmt(&self, f: &mut fmt::Formatter<'_>) -> fmt::Result {
        write!(f, "{} -> Probe#{}", self.prev, self.id)
    }
}

impl<Op: Operator> Operator for Probe<Op> {
    type Out = Op::Out;

    fn setup(&mut self, metadata: &mut ExecutionMetadata) {
        let c = metadata.coord;
        let rec: Rec = Arc::new(Mutex::new(Vec::new()));
        RECS.lock().unwrap().insert(
            (self.run, self.id, (c.block_id as u64, c.host_id as u64, c.replica_id as u64)),
            rec.clone(),
        );
        self.rec = Some(rec);
        self.prev.setup(metadata);
    }

    fn next(&mut self) -> StreamElement<Op::Out> {
        let e = self.prev.next();
        let (k, t) = kind_of(&e);
        if let Some(rec) = &self.rec {
            let mut g = rec.lock().unwrap();
            match g.last_mut() {
                Some((lk, lt, n)) if *lk == k && *lt == t => *n += 1,
                _ => g.push((k, t, 1)),
            }
        }
        e
    }

    fn structure(&self) -> BlockStructure {
        self.prev.structure().add_operator(OperatorStructure::new::<Op::Out, _>("Probe"))
    }
}

/// User-defined operator (public trait) that bounds the data volume of generated pipelines: at most
/// `limit` Item / Timestamped elements per iteration and replica pass, the rest is dropped; every
/// other element is forwarded unchanged. Used in front of joins, after `broadcast` and at the end of
/// `iterate` bodies (a self-join fed back into the loop squares the multiplicities in every round).
#[derive(Clone)]
struct Cap<Op: Operator> {
    prev: Op,
    limit: usize,
    seen: usize,
}

impl<Op: Operator> Display for Cap<Op> {
    fn fmt(&self, f: &mut fmt::Formatter<'_>) -> fmt::Result {
        write!(f, "{} -> Cap({})", self.prev, self.limit)
    }
}

impl<Op: Operator> Operator for Cap<Op> {
    type Out = Op::Out;

    fn setup(&mut self, metadata: &mut ExecutionMetadata) {
        self.prev.setup(metadata);
    }

    fn next(&mut self) -> StreamElement<Op::Out> {
        loop {
            match self.prev.next() {
                e @ (StreamElement::Item(_) | StreamElement::Timestamped(_, _)) => {
                    self.seen += 1;
                    if self.seen <= self.limit {
                        return e;
                    }
                }
                StreamElement::FlushAndRestart => {
                    self.seen = 0;
                    return StreamElement::FlushAndRestart;
                }
                e => return e,
            }
        }
    }

    fn structure(&self) -> BlockStructure {
        self.prev.structure().add_operator(OperatorStructure::new::<Op::Out, _>("Cap"))
    }
}

// ------------------------------------------------------------------------------------------------
// pipeline description

#[derive(Clone, Debug)]
enum Stage {
    S(Vec<String>),
    Loop { iterate: bool, max: usize, stop: i64, mode: String, body: Vec<Stage> },
}

/// tolerant recursive-descent parser over the op lines
fn parse_block(ops: &[Vec<String>], i: &mut usize, depth: usize) -> (Vec<Stage>, String) {
    let mut out = vec![];
    while *i < ops.len() {
        let w = &ops[*i];
        *i += 1;
        match w.first().map(|s| s.as_str()) {
            Some("s") if w.len() >= 2 => out.push(Stage::S(w[1..].to_vec())),
            Some("loop") if depth < 2 => {
                let iterate = w.get(1).map(|s| s == "iterate").unwrap_or(false);
                let max = w.get(2).and_then(|s| s.parse::<usize>().ok()).unwrap_or(1).clamp(1, 4);
                let stop = w.get(3).and_then(|s| s.parse::<i64>().ok()).unwrap_or(9).clamp(0, 9);
                let (body, mode) = parse_block(ops, i, depth + 1);
                out.push(Stage::Loop { iterate, max, stop, mode, body });
            }
            Some("endloop") if depth > 0 => {
                return (out, w.get(1).cloned().unwrap_or_else(|| "state".into()));
            }
            _ => {}
        }
    }
    (out, "state".into())
}

#[derive(Clone, Copy, PartialEq, Debug)]
enum Rep {
    U,
    One,
    L2,
    Host,
}

type P = Stream<BoxOp<i64>>;
type LState = (i64, i64);

struct St {
    s: P,
    rep: Rep,
    /// the stream may carry Timestamped / Watermark elements
    ts: bool,
    /// every data element is Timestamped for sure (event-time operators can use the timestamps that
    /// are already there)
    pure: bool,
}

#[derive(Default)]
struct B {
    run: u64,
    labels: Vec<String>,
    next_loop: usize,
    path: Vec<usize>,
    /// (id, kind, parent, max, stop)
    loops: Vec<(usize, &'static str, Option<usize>, usize, i64)>,
}

const MODV: i64 = 1_000_003;

impl B {
    fn probe<T: Send + 'static, Op: Operator<Out = T> + 'static>(&mut self, s: Stream<Op>, what: &str) -> Stream<BoxOp<T>> {
        let id = self.labels.len();
        let pos = if self.path.is_empty() {
            format!("after:{what}")
        } else {
            let p: Vec<String> = self.path.iter().map(|l| l.to_string()).collect();
            format!("after:{what}/in-loop:{}", p.join("."))
        };
        self.labels.push(pos);
        let run = self.run;
        erase(s.add_operator(|prev| Probe { prev, run, id, rec: None }))
    }

    fn probe_k<K, V, Op>(&mut self, s: KeyedStream<Op>, what: &str) -> KeyedStream<BoxOp<(K, V)>>
    where
        K: renoir::operator::DataKey + Send + 'static,
        V: Send + 'static,
        Op: Operator<Out = (K, V)> + 'static,
    {
        KeyedStream(self.probe(s.0, what))
    }

    fn cap(&mut self, st: St, limit: usize) -> St {
        St { s: self.probe(st.s.add_operator(|prev| Cap { prev, limit, seen: 0 }), "cap(user-defined)"), rep: st.rep, ts: st.ts, pure: st.pure }
    }

    fn shuffle_auto(&mut self, st: St) -> St {
        St { s: self.probe(st.s.shuffle(), "shuffle(auto)"), rep: Rep::U, ts: st.ts, pure: st.pure }
    }

    fn drop_ts_auto(&mut self, st: St) -> St {
        if st.ts {
            St { s: self.probe(st.s.drop_timestamps(), "drop_timestamps(auto)"), rep: st.rep, ts: false, pure: false }
        } else {
            st
        }
    }
}

fn key3(x: &i64) -> i64 {
    x.rem_euclid(3)
}

fn p_usize(w: &[String], i: usize, default: usize, lo: usize, hi: usize) -> usize {
    w.get(i).and_then(|s| s.parse::<usize>().ok()).unwrap_or(default).clamp(lo, hi)
}

/// Contract-respecting timestamps and watermarks per replica: the c-th element (c = 1, 2, …) of a
/// replica gets `2*c + j`, `j = x mod 4` with `jit` (out of order by up to 3) or 0; after every k-th
/// element a watermark `min(ts - late, 2*c + 1)` is emitted if it is larger than the previous one.
/// Every later element has a timestamp `>= 2*(c+1)`, i.e. above every watermark emitted so far; with
/// `late = 0` the watermark sits right at the element's timestamp.
fn add_ts(b: &mut B, st: St, k: usize, late: i64, jit: bool, what: &str) -> St {
    let st = b.drop_ts_auto(st);
    let k = k.max(1) as i64;
    let mut c = 0i64;
    let mut c2 = 0i64;
    let mut last_w = i64::MIN;
    let s = st.s.add_timestamps(
        move |x: &i64| {
            c += 1;
            2 * c + if jit { x.rem_euclid(4) } else { 0 }
        },
        move |_x: &i64, t: &i64| {
            c2 += 1;
            let w = (*t - late).min(2 * c2 + 1);
            if c2 % k == 0 && w > last_w {
                last_w = w;
                Some(w)
            } else {
                None
            }
        },
    );
    St { s: b.probe(s, what), rep: st.rep, ts: true, pure: true }
}

/// `ts<k>[:<late>[:<jit>]]`
fn parse_tsgen(s: &str) -> Option<(usize, i64, bool)> {
    let r = s.strip_prefix("ts")?;
    let mut it = r.split(':');
    let k = it.next()?.parse::<usize>().ok()?.clamp(1, 50);
    let late = it.next().and_then(|x| x.parse::<i64>().ok()).unwrap_or(1).clamp(0, 3);
    let jit = it.next().map(|x| x == "1").unwrap_or(false);
    Some((k, late, jit))
}

/// stages that turn Timestamped input into Timestamped output and forward or merge watermarks
const TS_PRESERVING: &[&str] =
    &["map", "filter", "flatmap", "inspect", "richmap", "stmap", "shuffle", "bcast", "repl", "fold", "folda", "reduce", "reducea"];

fn apply(b: &mut B, st: St, w: &[String], state: Option<&IterationStateHandle<LState>>) -> St {
    let pure_in = st.pure;
    let mut out = apply_inner(b, st, w, state);
    if TS_PRESERVING.contains(&w[0].as_str()) {
        out.pure = pure_in && out.ts;
    }
    out
}

/// one simple stage; `state`: the state handle of the innermost enclosing loop
fn apply_inner(b: &mut B, st: St, w: &[String], state: Option<&IterationStateHandle<LState>>) -> St {
    let in_loop = !b.path.is_empty();
    let name = w[0].as_str();
    let St { s, rep, ts, pure } = st;
    match name {
        "map" => St { s: b.probe(s.map(|x: i64| (x.wrapping_mul(3) + 1).rem_euclid(MODV)), "map"), rep, ts, pure: false },
        "filter" => St { s: b.probe(s.filter(|x: &i64| x.rem_euclid(3) != 0), "filter"), rep, ts, pure: false },
        "flatmap" => St {
            s: b.probe(
                s.flat_map(|x: i64| match x.rem_euclid(3) {
                    0 => vec![],
                    1 => vec![x],
                    _ => vec![x, x + 1],
                }),
                "flat_map",
            ),
            rep,
            ts,
            pure: false,
        },
        "inspect" => St { s: b.probe(s.inspect(|_x: &i64| {}), "inspect"), rep, ts, pure: false },
        "richmap" => {
            let mut c = 0i64;
            St {
                s: b.probe(
                    s.rich_map(move |x: i64| {
                        c += 1;
                        (x + c).rem_euclid(MODV)
                    }),
                    "rich_map",
                ),
                rep,
                ts,
                pure: false,
            }
        }
        "stmap" => match state {
            Some(h) => {
                let h = h.clone();
                St { s: b.probe(s.map(move |x: i64| (x + h.get().1.rem_euclid(7)).rem_euclid(MODV)), "map(state)"), rep, ts, pure: false }
            }
            None => St { s: b.probe(s.map(|x: i64| (x + 1).rem_euclid(MODV)), "map"), rep, ts, pure: false },
        },
        "shuffle" => St { s: b.probe(s.shuffle(), "shuffle"), rep: Rep::U, ts, pure: false },
        "bcast" => {
            let s = b.probe(s.broadcast(), "broadcast");
            // inside loop bodies the copies are thinned out again (an `iterate` would multiply the
            // data by the number of replicas in every round)
            let s = if in_loop { b.probe(s.filter(|x: &i64| x.rem_euclid(4) == 0), "filter") } else { s };
            b.cap(St { s, rep: Rep::U, ts, pure: false }, 400)
        }
        "repl" => {
            // Limited(k) / Host over a forward link only from an unlimited block (F8: a block with more
            // replicas than its only-one producer has replicas without producer)
            let want = w.get(1).map(|s| s.as_str()).unwrap_or("one");
            match (want, rep) {
                ("2", Rep::U) if !in_loop => St { s: b.probe(s.replication(Replication::new_limited(2)), "replication(2)"), rep: Rep::L2, ts, pure: false },
                ("host", Rep::U) if !in_loop => St { s: b.probe(s.replication(Replication::new_host()), "replication(host)"), rep: Rep::Host, ts, pure: false },
                _ => St { s: b.probe(s.replication(Replication::One), "replication(one)"), rep: Rep::One, ts, pure: false },
            }
        }
        "fold" => St { s: b.probe(s.fold(0i64, |a: &mut i64, x: i64| *a = (*a + x).rem_euclid(MODV)), "fold"), rep: Rep::One, ts, pure: false },
        "folda" => St {
            s: b.probe(
                s.fold_assoc(0i64, |a: &mut i64, x: i64| *a = (*a + x).rem_euclid(MODV), |a: &mut i64, x: i64| *a = (*a + x).rem_euclid(MODV)),
                "fold_assoc",
            ),
            rep: Rep::One,
            ts,
            pure: false,
        },
        "reduce" => St { s: b.probe(s.reduce(|a: i64, x: i64| (a + x).rem_euclid(MODV)), "reduce"), rep: Rep::One, ts, pure: false },
        "reducea" => St { s: b.probe(s.reduce_assoc(|a: i64, x: i64| (a + x).rem_euclid(MODV)), "reduce_assoc"), rep: Rep::One, ts, pure: false },
        "kfold" => {
            let k = b.probe_k(s.group_by(key3), "group_by");
            let k = b.probe_k(k.inspect(|_kv: &(i64, i64)| {}), "keyed-inspect");
            let k = b.probe_k(k.fold(0i64, |a: &mut i64, x: i64| *a = (*a + x).rem_euclid(MODV)), "keyed-fold");
            St { s: b.probe(k.drop_key(), "drop_key"), rep: Rep::U, ts, pure: false }
        }
        "kreduce" => {
            let k = b.probe_k(s.group_by(key3), "group_by");
            let k = b.probe_k(k.map(|(_k, x): (&i64, i64)| (x + 1).rem_euclid(MODV)), "keyed-map");
            let k = b.probe_k(k.reduce(|a: &mut i64, x: i64| *a = (*a + x).rem_euclid(MODV)), "keyed-reduce");
            let u = b.probe(k.unkey(), "unkey");
            St { s: b.probe(u.map(|(k, v): (i64, i64)| (k + 3 * v).rem_euclid(MODV)), "map"), rep: Rep::U, ts, pure: false }
        }
        "gbcount" => {
            let k = b.probe_k(s.group_by_count(key3), "group_by_count");
            let u = b.probe(k.unkey(), "unkey");
            St { s: b.probe(u.map(|(k, c): (i64, usize)| k + 3 * c as i64), "map"), rep: Rep::U, ts, pure: false }
        }
        "gbfold" => {
            let k = b.probe_k(
                s.group_by_fold(key3, 0i64, |a: &mut i64, x: i64| *a = (*a + x).rem_euclid(MODV), |a: &mut i64, x: i64| *a = (*a + x).rem_euclid(MODV)),
                "group_by_fold",
            );
            St { s: b.probe(k.drop_key(), "drop_key"), rep: Rep::U, ts, pure: false }
        }
        "gbreduce" => {
            let k = b.probe_k(s.group_by_reduce(key3, |a: &mut i64, x: i64| *a = (*a + x).rem_euclid(MODV)), "group_by_reduce");
            St { s: b.probe(k.drop_key(), "drop_key"), rep: Rep::U, ts, pure: false }
        }
        "keyby" => {
            let k = b.probe_k(s.key_by(key3), "key_by");
            let k = b.probe_k(k.filter(|(_k, x): &(i64, i64)| x.rem_euclid(5) != 0), "keyed-filter");
            let k = b.probe_k(k.fold(0i64, |a: &mut i64, x: i64| *a = (*a + x).rem_euclid(MODV)), "keyed-fold");
            St { s: b.probe(k.drop_key(), "drop_key"), rep, ts, pure: false }
        }
        "cwin" => {
            let size = p_usize(w, 1, 3, 1, 6);
            let slide = p_usize(w, 2, size, 1, size);
            let k = b.probe_k(s.group_by(key3), "group_by");
            let k = b.probe_k(
                k.window(CountWindow::sliding(size, slide)).fold(0i64, |a: &mut i64, x: i64| *a = (*a + x).rem_euclid(MODV)),
                "count-window",
            );
            St { s: b.probe(k.drop_key(), "drop_key"), rep: Rep::U, ts, pure: false }
        }
        "cwinall" => {
            let size = p_usize(w, 1, 3, 1, 6);
            let k = b.probe_k(
                s.window_all(CountWindow::tumbling(size)).fold(0i64, |a: &mut i64, x: i64| *a = (*a + x).rem_euclid(MODV)),
                "count-window-all",
            );
            St { s: b.probe(k.drop_key(), "drop_key"), rep: Rep::One, ts, pure: false }
        }
        "etwin" | "etwinall" => {
            let size = p_usize(w, 1, 30, 1, 200) as i64;
            let slide = p_usize(w, 2, size as usize, 1, size as usize) as i64;
            let wk = p_usize(w, 3, 2, 1, 20);
            let keep = w.last().map(|x| x == "keep").unwrap_or(false);
            // a stream whose data elements are all Timestamped keeps its timestamps and watermarks
            // (whatever the upstream operators made of them); otherwise fresh ones are attached
            let st = if pure {
                St { s, rep, ts, pure }
            } else {
                add_ts(b, St { s, rep, ts, pure }, wk, (wk % 4) as i64, true, "add_timestamps")
            };
            let (k, rep2) = if name == "etwin" {
                let k = b.probe_k(st.s.group_by(key3), "group_by");
                let k = b.probe_k(
                    k.window(EventTimeWindow::sliding(size, slide)).fold(0i64, |a: &mut i64, x: i64| *a = (*a + x).rem_euclid(MODV)),
                    "event-time-window",
                );
                (b.probe(k.drop_key(), "drop_key"), Rep::U)
            } else {
                let k = b.probe_k(
                    st.s.window_all(EventTimeWindow::tumbling(size)).fold(0i64, |a: &mut i64, x: i64| *a = (*a + x).rem_euclid(MODV)),
                    "event-time-window-all",
                );
                (b.probe(k.drop_key(), "drop_key"), Rep::One)
            };
            if keep {
                St { s: k, rep: rep2, ts: true, pure: true }
            } else {
                St { s: b.probe(k.drop_timestamps(), "drop_timestamps"), rep: rep2, ts: false, pure: false }
            }
        }
        "reorder" => {
            let wk = p_usize(w, 1, 2, 1, 20);
            let keep = w.last().map(|x| x == "keep").unwrap_or(false);
            let st = if pure {
                St { s, rep, ts, pure }
            } else {
                add_ts(b, St { s, rep, ts, pure }, wk, (wk % 4) as i64, true, "add_timestamps")
            };
            let r = b.probe(st.s.reorder(), "reorder");
            if keep {
                St { s: r, rep: st.rep, ts: true, pure: true }
            } else {
                St { s: b.probe(r.drop_timestamps(), "drop_timestamps"), rep: st.rep, ts: false, pure: false }
            }
        }
        "addts" if !in_loop || !ts => {
            let k = p_usize(w, 1, 3, 1, 50);
            let late = p_usize(w, 2, 1, 0, 3) as i64;
            let jit = w.get(3).map(|x| x == "1").unwrap_or(false);
            add_ts(b, St { s, rep, ts, pure }, k, late, jit, "add_timestamps")
        }
        "dropts" => St { s: b.probe(s.drop_timestamps(), "drop_timestamps"), rep, ts: false, pure: false },
        "ivjoin" => ivjoin(b, St { s, rep, ts, pure }, w, state),
        "merge" | "zip" | "join" => binary(b, St { s, rep, ts, pure }, w, state),
        _ => St { s, rep, ts, pure: false },
    }
}

/// the simple stages usable on one side of a binary stage
const BRANCH: &[&str] = &["id", "map", "filter", "flatmap", "inspect", "shuffle", "fold", "kfold", "richmap"];

fn branch(b: &mut B, st: St, name: &str, state: Option<&IterationStateHandle<LState>>) -> St {
    if name != "id" && BRANCH.contains(&name) {
        apply(b, st, &[name.to_string()], state)
    } else {
        st
    }
}

fn binary(b: &mut B, st: St, w: &[String], state: Option<&IterationStateHandle<LState>>) -> St {
    let name = w[0].as_str();
    let (ln, rn) = if name == "join" {
        (w.get(4).cloned().unwrap_or_default(), w.get(5).cloned().unwrap_or_default())
    } else {
        (w.get(1).cloned().unwrap_or_default(), w.get(2).cloned().unwrap_or_default())
    };
    // both local join algorithms stop with a panic on Timestamped / Watermark elements
    let st = if name == "join" { b.drop_ts_auto(st) } else { st };
    let (rep, ts, pure) = (st.rep, st.ts, st.pure);
    let mut v = st.s.split(2);
    let r = v.pop().unwrap();
    let l = v.pop().unwrap();
    let l = St { s: b.probe(l, "split"), rep, ts, pure };
    let r = St { s: b.probe(r, "split"), rep, ts, pure };
    let mut l = branch(b, l, &ln, state);
    let mut r = branch(b, r, &rn, state);
    match name {
        "merge" | "zip" => {
            // both sides of a Y connection need the same replication
            if l.rep != r.rep {
                if l.rep != Rep::U {
                    l = b.shuffle_auto(l);
                }
                if r.rep != Rep::U {
                    r = b.shuffle_auto(r);
                }
            }
            if name == "merge" {
                {
                    let (ts2, pure2) = (l.ts || r.ts, l.pure && r.pure);
                    St { s: b.probe(l.s.merge(r.s), "merge"), rep: l.rep, ts: ts2, pure: pure2 }
                }
            } else {
                let z = b.probe(l.s.zip(r.s), "zip");
                St { s: b.probe(z.map(|(x, y): (i64, i64)| (x + y).rem_euclid(MODV)), "map"), rep: Rep::One, ts, pure: false }
            }
        }
        _ => {
            let ship = w.get(1).map(|s| s.as_str()).unwrap_or("hash");
            let local = w.get(2).map(|s| s.as_str()).unwrap_or("lh");
            let var = w.get(3).map(|s| s.as_str()).unwrap_or("inner");
            // the key is the value itself; both inputs are bounded (equal values pair up quadratically)
            let l = b.cap(l, 50);
            let r = b.cap(r, 50);
            let j = l.s.join_with(r.s, |x: &i64| *x, |x: &i64| *x);
            let o = |x: Option<i64>| x.unwrap_or(7);
            if ship == "bcast" {
                let j = j.ship_broadcast_right();
                let s = match (local, var) {
                    ("sm", "inner") => b.probe(b_map_in(j.local_sort_merge().inner()), "join(bcast,sort-merge,inner)+map"),
                    ("sm", _) => b.probe(j.local_sort_merge().left().map(move |(_k, (x, y)): (i64, (i64, Option<i64>))| (x + o(y)).rem_euclid(MODV)), "join(bcast,sort-merge,left)+map"),
                    (_, "inner") => b.probe(b_map_in(j.local_hash().inner()), "join(bcast,hash,inner)+map"),
                    _ => b.probe(j.local_hash().left().map(move |(_k, (x, y)): (i64, (i64, Option<i64>))| (x + o(y)).rem_euclid(MODV)), "join(bcast,hash,left)+map"),
                };
                St { s, rep: l.rep, ts, pure: false }
            } else {
                let j = j.ship_hash();
                macro_rules! fin {
                    ($k:expr, $what:expr, $f:expr) => {{
                        let k = b.probe_k($k, $what);
                        let k = b.probe_k(k.map($f), "keyed-map");
                        b.probe(k.drop_key(), "drop_key")
                    }};
                }
                let fi = |(_k, (x, y)): (&i64, (i64, i64))| (x + y).rem_euclid(MODV);
                let fl = move |(_k, (x, y)): (&i64, (i64, Option<i64>))| (x + o(y)).rem_euclid(MODV);
                let fo = move |(_k, (x, y)): (&i64, (Option<i64>, Option<i64>))| (o(x) + o(y)).rem_euclid(MODV);
                let s = match (local, var) {
                    ("sm", "inner") => fin!(j.local_sort_merge().inner(), "join(hash,sort-merge,inner)", fi),
                    ("sm", "left") => fin!(j.local_sort_merge().left(), "join(hash,sort-merge,left)", fl),
                    ("sm", _) => fin!(j.local_sort_merge().outer(), "join(hash,sort-merge,outer)", fo),
                    (_, "inner") => fin!(j.local_hash().inner(), "join(hash,hash,inner)", fi),
                    (_, "left") => fin!(j.local_hash().left(), "join(hash,hash,left)", fl),
                    _ => fin!(j.local_hash().outer(), "join(hash,hash,outer)", fo),
                };
                St { s, rep: Rep::U, ts, pure: false }
            }
        }
    }
}

/// `interval_join` (public API) of two branches of a split of a timestamped stream
fn ivjoin(b: &mut B, st: St, w: &[String], state: Option<&IterationStateHandle<LState>>) -> St {
    let lo = w.get(1).and_then(|x| x.parse::<i64>().ok()).unwrap_or(-2).clamp(-6, 6);
    let hi = w.get(2).and_then(|x| x.parse::<i64>().ok()).unwrap_or(2).clamp(lo, 8);
    const OK: &[&str] = &["map", "filter", "flatmap", "inspect", "shuffle"];
    let ln = w.get(3).cloned().unwrap_or_default();
    let rn = w.get(4).cloned().unwrap_or_default();
    let st = if st.pure { st } else { add_ts(b, st, 2, 1, true, "add_timestamps") };
    let (rep, ts, pure) = (st.rep, st.ts, st.pure);
    let mut v = st.s.split(2);
    let r = v.pop().unwrap();
    let l = v.pop().unwrap();
    let mut l = St { s: b.probe(l, "split"), rep, ts, pure };
    let mut r = St { s: b.probe(r, "split"), rep, ts, pure };
    if OK.contains(&ln.as_str()) {
        l = apply(b, l, &[ln], state);
    }
    if OK.contains(&rn.as_str()) {
        r = apply(b, r, &[rn], state);
    }
    let l = b.cap(l, 150);
    let r = b.cap(r, 150);
    let j = b.probe(l.s.interval_join(r.s, lo, hi), "interval_join");
    St { s: b.probe(j.map(|(x, y): (i64, i64)| (x + y).rem_euclid(MODV)), "map"), rep: Rep::One, ts: true, pure: false }
}

fn b_map_in<Op: Operator<Out = (i64, (i64, i64))> + 'static>(s: Stream<Op>) -> Stream<impl Operator<Out = i64>> {
    s.map(|(_k, (x, y)): (i64, (i64, i64))| (x + y).rem_euclid(MODV))
}

fn loop_fns(run: u64, id: usize, stop: i64) -> (
    impl Fn(&mut i64, i64) + Send + Clone + 'static,
    impl Fn(&mut LState, i64) + Send + Clone + 'static,
    impl Fn(&mut LState) -> bool + Send + Clone + 'static,
) {
    (
        |d: &mut i64, x: i64| *d = (*d + x).rem_euclid(MODV),
        |s: &mut LState, d: i64| s.1 = (s.1 + d).rem_euclid(MODV),
        move |s: &mut LState| {
            s.0 += 1;
            LOOPS.lock().unwrap().entry((run, id)).or_default().1 += 1;
            s.0 < stop
        },
    )
}

/// the state stream of a loop: probe, record the round counter of every final state, back to i64
fn state_stream<Op: Operator<Out = LState> + 'static>(b: &mut B, s: Stream<Op>, id: usize, what: &str) -> P {
    let s = b.probe(s, what);
    let run = b.run;
    let s = s.map(move |st: LState| {
        LOOPS.lock().unwrap().entry((run, id)).or_default().0.push(st.0);
        (st.0 * 1000 + st.1.rem_euclid(1000)).rem_euclid(MODV)
    });
    b.probe(s, "map(final-state)")
}

fn build_loop(b: &mut B, st: St, iterate: bool, max: usize, stop: i64, mode: &str, body: &[Stage]) -> St {
    // loops need an unlimited block in front. IterationEnd accepts plain items only: an `iterate` gets
    // plain items; a `replay` may get the timestamped stream (Replay stores and replays Timestamped and
    // Watermark elements: the timestamps restart in every round), its body end drops the timestamps
    let mut st = if iterate { b.drop_ts_auto(st) } else { st };
    let (ts_in, pure_in) = (st.ts, st.pure);
    if st.rep != Rep::U {
        st = b.shuffle_auto(st);
    }
    let id = b.next_loop;
    b.next_loop += 1;
    b.loops.push((id, if iterate { "iterate" } else { "replay" }, b.path.last().copied(), max, stop));
    let (lf, gf, cf) = loop_fns(b.run, id, stop);
    // the body closure has to be 'static (the returned `impl Operator` captures its type): the
    // builder state is moved into a cell for the duration of the call
    let cell = Rc::new(RefCell::new(std::mem::take(b)));
    let cell2 = cell.clone();
    let body: Vec<Stage> = body.to_vec();
    let res = if !iterate {
        let out = st.s.replay(
            max,
            (0i64, 0i64),
            move |s, h| {
                let mut guard = cell2.borrow_mut();
                let b = &mut *guard;
                b.path.push(id);
                let s = b.probe(s, "Replay");
                let r = build_stages(b, St { s, rep: Rep::U, ts: ts_in, pure: pure_in }, &body, Some(&h));
                let r = b.drop_ts_auto(r);
                let s = b.probe(r.s.inspect(|_x: &i64| {}), "body-end");
                b.path.pop();
                s
            },
            lf,
            gf,
            cf,
        );
        *b = cell.take();
        St { s: state_stream(b, out, id, "replay-state"), rep: Rep::U, ts: false, pure: false }
    } else {
        let (state, items) = st.s.iterate(
            max,
            (0i64, 0i64),
            move |s, h| {
                let mut guard = cell2.borrow_mut();
                let b = &mut *guard;
                b.path.push(id);
                let s = b.probe(s, "Iterate");
                let r = build_stages(b, St { s, rep: Rep::U, ts: false, pure: false }, &body, Some(&h));
                let mut r = b.drop_ts_auto(r);
                // the feedback link is an only-one connection into the unlimited Iterate block
                if r.rep != Rep::U {
                    r = b.shuffle_auto(r);
                }
                let r = b.cap(r, 400);
                let s = b.probe(r.s.inspect(|_x: &i64| {}), "body-end");
                b.path.pop();
                s
            },
            lf,
            gf,
            cf,
        );
        *b = cell.take();
        let state = state_stream(b, state, id, "iterate-state");
        let items = b.probe(items, "iterate-items");
        match mode {
            "items" => {
                let s = b.probe(state.inspect(|_x: &i64| {}), "before-sink:for_each");
                s.for_each(|_x: i64| {});
                St { s: items, rep: Rep::U, ts: false, pure: false }
            }
            "both" => St { s: b.probe(items.merge(state), "merge"), rep: Rep::U, ts: false, pure: false },
            _ => {
                let s = b.probe(items.inspect(|_x: &i64| {}), "before-sink:for_each");
                s.for_each(|_x: i64| {});
                St { s: state, rep: Rep::U, ts: false, pure: false }
            }
        }
    };
    res
}

fn build_stages(b: &mut B, mut st: St, stages: &[Stage], state: Option<&IterationStateHandle<LState>>) -> St {
    for stage in stages {
        st = match stage {
            Stage::S(w) => apply(b, st, w, state),
            Stage::Loop { iterate, max, stop, mode, body } => build_loop(b, st, *iterate, *max, *stop, mode, body),
        };
    }
    st
}

fn build(ctx: &StreamContext, run: u64, c: &Case) {
    let h = &c.header;
    let batch = h.get(2).and_then(|s| Batch::parse(s)).unwrap_or(Batch::Default);
    let n: i64 = h.get(4).and_then(|s| s.parse().ok()).unwrap_or(0);
    let mut b = B { run, labels: vec![], next_loop: 0, path: vec![], loops: vec![] };
    let st = if h.get(3).map(|s| s.as_str()) == Some("par") {
        let s = ctx.stream_par_iter(0..n);
        let s = match batch.mode() {
            Some(m) => erase(s.batch_mode(m)),
            None => erase(s),
        };
        St { s: b.probe(s, "source:par_iter"), rep: Rep::U, ts: false, pure: false }
    } else {
        let s = ctx.stream_iter(0..n);
        let s = match batch.mode() {
            Some(m) => erase(s.batch_mode(m)),
            None => erase(s),
        };
        St { s: b.probe(s, "source:iter"), rep: Rep::One, ts: false, pure: false }
    };
    let st = match h.get(5).and_then(|s| parse_tsgen(s)) {
        Some((k, late, jit)) => add_ts(&mut b, st, k, late, jit, "add_timestamps"),
        None => st,
    };
    let mut i = 0;
    let (stages, _) = parse_block(&c.ops, &mut i, 0);
    let st = build_stages(&mut b, st, &stages, None);
    match h.get(6).map(|s| s.as_str()).unwrap_or("vec") {
        "foreach" => {
            let s = b.probe(st.s.inspect(|_x: &i64| {}), "before-sink:for_each");
            s.for_each(|_x: i64| {});
        }
        "count" => {
            let s = b.probe(st.s.inspect(|_x: &i64| {}), "before-sink:collect_count");
            let _ = s.collect_count();
        }
        "vec1" => {
            // what arrives at a single-replica block, like the one `collect_vec` puts its sink into
            let s = b.probe(st.s.replication(Replication::One), "before-sink:replication(one)+collect_vec");
            let _ = s.collect_vec();
        }
        _ => {
            let s = b.probe(st.s.inspect(|_x: &i64| {}), "before-sink:collect_vec");
            let _ = s.collect_vec();
        }
    }
    LABELS.lock().unwrap().insert(run, b.labels.clone());
    let mut g = LOOPS.lock().unwrap();
    for l in &b.loops {
        g.entry((run, l.0)).or_default();
    }
    drop(g);
    LOOP_DESCR.lock().unwrap().insert(run, b.loops.clone());
}

static LOOP_DESCR: Mutex<BTreeMap<u64, Vec<(usize, &'static str, Option<usize>, usize, i64)>>> = Mutex::new(BTreeMap::new());

// ------------------------------------------------------------------------------------------------
// running a case

fn is_infra(m: &str) -> bool {
    let m = m.to_lowercase();
    m.contains("failed to bind") || m.contains("address already in use") || m.contains("addrinuse")
}

fn fmt_seq(v: &[(u8, i64, u32)]) -> String {
    if v.is_empty() {
        return "-".into();
    }
    v.iter()
        .map(|(k, t, n)| {
            let tok = if *k == 1 || *k == 2 { format!("{}{t}", KINDS[*k as usize]) } else { KINDS[*k as usize].to_string() };
            if *n == 1 {
                tok
            } else {
                format!("{tok}*{n}")
            }
        })
        .collect::<Vec<_>>()
        .join(",")
}

enum Res {
    Lines(Vec<String>),
    Infra,
}

/// The region of the known C04 findings F17/F18 (the feedback cycle of an `iterate` is drained only from
/// `Iterate::next`): a small batch mode and an `iterate` body with an all-to-all connection or an
/// expanding stage. Such cases are still generated and run, under a shorter watchdog.
fn f18_region(c: &Case) -> bool {
    let small = match c.header.get(2).and_then(|s| Batch::parse(s)) {
        Some(Batch::Single) => true,
        Some(Batch::Fixed(n)) => n <= 3,
        Some(Batch::Adaptive(n, _)) => n <= 8,
        _ => false,
    };
    let mut stack: Vec<bool> = vec![];
    let mut exchange = false;
    for w in &c.ops {
        match w.first().map(|s| s.as_str()) {
            Some("loop") if stack.len() < 2 => stack.push(w.get(1).map(|s| s == "iterate").unwrap_or(false)),
            Some("endloop") => {
                stack.pop();
            }
            Some("s") if stack.contains(&true) => {
                let local = ["map", "filter", "inspect", "richmap", "stmap", "dropts", "keyby"];
                if !w.get(1).map(|n| local.contains(&n.as_str())).unwrap_or(true) {
                    exchange = true;
                }
            }
            _ => {}
        }
    }
    small && exchange
}

fn run_once(c: &Case) -> Res {
    let cfg = c.header.get(1).and_then(|s| Config::parse(s)).unwrap_or(Config::Local(1));
    let run = RUN.fetch_add(1, Ordering::SeqCst);
    let log_start = PANICS.lock().unwrap().len();
    let case = c.clone();
    let watchdog = Duration::from_secs((if f18_region(c) { 10 } else { 30 }) * nvh::load_factor() as u64);
    let (res, prefix) = run_hosts(&cfg, next_uniq(), move |ctx| build(ctx, run, &case), |_| (), watchdog);
    let log: Vec<String> = PANICS.lock().unwrap()[log_start..].to_vec();
    let mine = |m: &String| is_infra(m) && prefix.as_ref().map_or(false, |p| m.contains(p.as_str()));
    let mut blocked = false;
    let mut panic: Option<String> = None;
    for r in &res {
        match r {
            None => blocked = true,
            Some(Err(m)) => {
                if is_infra(m) {
                    return Res::Infra;
                }
                panic.get_or_insert(m.clone());
            }
            Some(Ok(())) => {}
        }
    }
    if log.iter().any(mine) {
        return Res::Infra;
    }
    let mut out = vec![];
    if let Some(m) = panic {
        let first = log.iter().find(|x| !x.contains("called `Result::unwrap()`") && !x.contains("Any { .. }")).cloned();
        let m = if m.contains("called `Result::unwrap()`") || m.contains("Any { .. }") { first.unwrap_or(m) } else { m };
        if std::env::var("PROBE_DEBUG").is_ok() {
            eprintln!("# panic in run {run}: {m}");
        }
        out.push(format!("panic:{}", classify_panic(&m)));
    } else if blocked {
        out.push("blocked".into());
    }
    let labels = LABELS.lock().unwrap().remove(&run).unwrap_or_default();
    let recs: Vec<((usize, (u64, u64, u64)), Rec)> = {
        let mut g = RECS.lock().unwrap();
        let keys: Vec<_> = g.range((run, 0, (0, 0, 0))..(run + 1, 0, (0, 0, 0))).map(|(k, _)| *k).collect();
        keys.into_iter().map(|k| ((k.1, k.2), g.remove(&k).unwrap())).collect()
    };
    for ((id, (bl, h, r)), rec) in recs {
        let pos = labels.get(id).cloned().unwrap_or_else(|| "?".into());
        let seq = fmt_seq(&rec.lock().unwrap());
        out.push(format!("p {id} {pos} b{bl}h{h}r{r} {seq}"));
    }
    let descr = LOOP_DESCR.lock().unwrap().remove(&run).unwrap_or_default();
    let mut g = LOOPS.lock().unwrap();
    for (id, kind, parent, max, stop) in descr {
        let (finals, calls) = g.remove(&(run, id)).unwrap_or_default();
        let parent = parent.map(|p| p.to_string()).unwrap_or_else(|| "-".into());
        out.push(format!(
            "loop {id} {kind} {parent} {max} {stop} execs {} rounds {} calls {calls}",
            finals.len(),
            finals.iter().sum::<i64>()
        ));
    }
    Res::Lines(out)
}

fn exec(c: &Case) -> Vec<String> {
    match run_once(c) {
        Res::Lines(l) => l,
        // an address clash of the in-process multi-host rig: once more on fresh addresses
        Res::Infra => match run_once(c) {
            Res::Lines(l) => l,
            Res::Infra => vec!["infra".into()],
        },
    }
}

// ------------------------------------------------------------------------------------------------
// generator

struct G<'a> {
    rng: &'a mut Rng,
    ops: Vec<Vec<String>>,
    /// rough upper bound of the number of elements
    size: i64,
}

fn sw(words: &[&str]) -> Vec<String> {
    words.iter().map(|s| s.to_string()).collect()
}

impl G<'_> {
    fn stateless(&mut self) {
        let s = *self.rng.pick(&["map", "map", "filter", "flatmap", "inspect", "richmap", "stmap"]);
        self.ops.push(sw(&["s", s]));
    }
    fn repart(&mut self, in_loop: bool) {
        let s: Vec<&str> = match self.rng.below(7) {
            0 | 1 | 2 => vec!["s", "shuffle"],
            3 => {
                if !in_loop {
                    self.size *= 4;
                }
                vec!["s", "bcast"]
            }
            4 => vec!["s", "repl", "one"],
            5 => vec!["s", "repl", if in_loop { "one" } else { "2" }],
            _ => vec!["s", "repl", if in_loop { "one" } else { "host" }],
        };
        self.ops.push(sw(&s));
    }
    fn stateful(&mut self) {
        let r = self.rng.below(16);
        let a = self.rng.range(1, 5).to_string();
        let bsl = self.rng.range(1, 5).to_string();
        let size = (*self.rng.pick(&[5, 20, 30, 100])).to_string();
        let slide = (*self.rng.pick(&[5, 10, 30])).to_string();
        let wk = (*self.rng.pick(&[1, 2, 5])).to_string();
        let s: Vec<&str> = match r {
            0 => vec!["s", "fold"],
            1 => vec!["s", "folda"],
            2 => vec!["s", "reduce"],
            3 => vec!["s", "reducea"],
            4 => vec!["s", "kfold"],
            5 => vec!["s", "kreduce"],
            6 => vec!["s", "gbcount"],
            7 => vec!["s", "gbfold"],
            8 => vec!["s", "gbreduce"],
            9 => vec!["s", "keyby"],
            10 | 11 => vec!["s", "cwin", &a, &bsl],
            12 => vec!["s", "cwinall", &a],
            13 => vec!["s", "etwin", &size, &slide, &wk],
            14 => vec!["s", "etwinall", &size],
            _ => vec!["s", "reorder", &wk],
        };
        if matches!(r, 0..=3) {
            self.size = 1;
        }
        self.ops.push(sw(&s));
    }
    fn binary(&mut self) {
        let l = *self.rng.pick(BRANCH);
        let r = *self.rng.pick(BRANCH);
        match self.rng.below(6) {
            0 | 1 => self.ops.push(sw(&["s", "merge", l, r])),
            2 => self.ops.push(sw(&["s", "zip", l, r])),
            _ => {
                let ship = *self.rng.pick(&["hash", "hash", "bcast"]);
                let local = *self.rng.pick(&["lh", "sm"]);
                let var = *self.rng.pick(&["inner", "left", "outer"]);
                self.ops.push(sw(&["s", "join", ship, local, var, l, r]));
            }
        }
    }
    fn stage(&mut self, depth: usize) {
        match self.rng.below(20) {
            0..=4 => self.stateless(),
            5..=7 => self.repart(depth > 0),
            8..=12 => self.stateful(),
            13..=15 => self.binary(),
            _ if depth < 2 && (depth == 0 || self.rng.chance(1, 3)) && self.size <= 450 => self.lp(depth),
            _ => self.stateful(),
        }
    }
    fn lp(&mut self, depth: usize) {
        let kind = if self.rng.chance(1, 2) { "replay" } else { "iterate" };
        let max = self.rng.range(1, 4);
        // mostly the bound decides, sometimes the condition stops earlier
        let stop = if self.rng.chance(1, 3) { self.rng.range(1, 4) } else { 9 };
        self.ops.push(sw(&["loop", kind, &max.to_string(), &stop.to_string()]));
        let n = self.rng.range(0, if depth == 0 { 4 } else { 2 });
        for _ in 0..n {
            self.stage(depth + 1);
        }
        let mode = *self.rng.pick(&["state", "items", "both"]);
        self.ops.push(sw(&["endloop", mode]));
        if kind == "replay" || mode == "state" {
            self.size = 1;
        }
    }
}

fn gen(rng: &mut Rng, i: usize) -> Case {
    let cfg = match rng.below(10) {
        0 => "L1".to_string(),
        1 | 2 => "L2".to_string(),
        3 => "L3".to_string(),
        4 | 5 => "L4".to_string(),
        6 => "R1:1".to_string(),
        7 => "R2:1".to_string(),
        8 => "R1:2".to_string(),
        _ => "R2:2".to_string(),
    };
    let bm = match rng.below(8) {
        0 | 1 => "def".to_string(),
        2 => "single".to_string(),
        3 => "f1".to_string(),
        4 => "f3".to_string(),
        _ => format!("a{}:{}", rng.pick(&[1, 2, 4, 8]), rng.range(1, 5)),
    };
    let src = if rng.chance(1, 2) { "iter" } else { "par" };
    let n = match rng.below(8) {
        0 => 0,
        1 => 1,
        2 | 3 | 4 => rng.range(2, 9),
        _ => rng.range(100, 400),
    };
    let ts = if rng.chance(1, 4) { format!("ts{}", rng.pick(&[1, 3, 10])) } else { "nots".to_string() };
    let sink = *rng.pick(&["vec", "vec", "vec1", "foreach", "count"]);
    let mut c = Case::new(&["probe", &cfg, &bm, src, &n.to_string(), &ts, sink]);
    let mut g = G { rng, ops: vec![], size: n };
    // classes: every third case has a loop for sure, every third none of its own accord
    let steps = g.rng.range(1, 6);
    let loop_at = if i % 3 == 0 { g.rng.range(0, steps - 1) } else { -1 };
    for k in 0..steps {
        if k == loop_at {
            g.lp(0);
        } else {
            g.stage(0);
        }
    }
    c.ops = g.ops;
    // the region of the known C04 deadlocks F17/F18 (see `f18_region`) stays below ~5 % of the cases:
    // half of the large-input cases in it run with the default batch size instead
    if n >= 100 && f18_region(&c) && rng.chance(1, 2) {
        c.header[2] = "def".into();
    }
    c
}

/// `--ts`: pipelines biased towards timestamps and watermarks (C06): a timestamped source whose
/// watermarks sit at or just below element timestamps, multi-replica exchanges behind it (the Start
/// frontier is the minimum over the replicas), event-time windows, reorder, folds, interval joins,
/// merges, all of it inside `replay` loops too (the replayed timestamps restart in every round).
impl G<'_> {
    fn stage_ts(&mut self, depth: usize) {
        let size = (*self.rng.pick(&[3, 5, 8, 20, 50])).to_string();
        let slide = (*self.rng.pick(&[1, 2, 5, 8, 50])).to_string();
        let wk = (*self.rng.pick(&[1, 2, 3, 5])).to_string();
        let keep = if self.rng.chance(4, 5) { "keep" } else { "drop" };
        match self.rng.below(40) {
            0..=5 => {
                let s = *self.rng.pick(&["map", "filter", "flatmap", "flatmap", "inspect", "richmap"]);
                self.ops.push(sw(&["s", s]));
            }
            6..=10 => self.ops.push(sw(&["s", "shuffle"])),
            11 => self.ops.push(sw(&["s", "bcast"])),
            12 | 13 => self.ops.push(sw(&["s", "repl", *self.rng.pick(&["one", "2", "one"])])),
            14..=17 => {
                let s = *self.rng.pick(&["fold", "folda", "reduce", "reducea"]);
                self.ops.push(sw(&["s", s]));
                self.size = 1;
            }
            18..=20 => {
                let s = *self.rng.pick(&["kfold", "kreduce", "gbfold", "gbreduce", "gbcount", "keyby"]);
                self.ops.push(sw(&["s", s]));
            }
            21..=26 => self.ops.push(sw(&["s", "etwin", &size, &slide, &wk, keep])),
            27 | 28 => self.ops.push(sw(&["s", "etwinall", &size, "1", &wk, keep])),
            29..=31 => self.ops.push(sw(&["s", "reorder", &wk, keep])),
            32 => {
                let a = self.rng.range(1, 4).to_string();
                self.ops.push(sw(&["s", "cwin", &a, "1"]));
            }
            33 | 34 => {
                let l = *self.rng.pick(&["id", "map", "filter", "flatmap", "shuffle", "fold"]);
                let r = *self.rng.pick(&["id", "map", "filter", "shuffle"]);
                self.ops.push(sw(&["s", "merge", l, r]));
            }
            35 => self.ops.push(sw(&["s", "zip", "id", "map"])),
            36 | 37 => {
                let lo = self.rng.range(-4, 1).to_string();
                let hi = self.rng.range(0, 5).to_string();
                let l = *self.rng.pick(&["id", "map", "filter", "shuffle"]);
                let r = *self.rng.pick(&["id", "flatmap", "shuffle"]);
                self.ops.push(sw(&["s", "ivjoin", &lo, &hi, l, r]));
            }
            _ if depth == 0 && self.size <= 450 => self.lp_ts(),
            _ => self.ops.push(sw(&["s", "shuffle"])),
        }
    }
    fn lp_ts(&mut self) {
        // mostly replay (the only loop a timestamped stream may enter), 1-3 rounds
        let kind = if self.rng.chance(5, 6) { "replay" } else { "iterate" };
        let max = self.rng.range(1, 3);
        self.ops.push(sw(&["loop", kind, &max.to_string(), "9"]));
        let n = self.rng.range(1, 3);
        for _ in 0..n {
            self.stage_ts(1);
        }
        self.ops.push(sw(&["endloop", *self.rng.pick(&["state", "items"])]));
        self.size = 1;
    }
}

fn gen_ts(rng: &mut Rng, i: usize) -> Case {
    let cfg = *rng.pick(&["L1", "L2", "L2", "L3", "L4", "L4", "R1:1", "R2:1", "R1:2", "R2:2"]);
    let bm = match rng.below(8) {
        0 | 1 => "def".to_string(),
        2 => "single".to_string(),
        3 => "f1".to_string(),
        4 => "f3".to_string(),
        _ => format!("a{}:{}", rng.pick(&[1, 2, 4, 8]), rng.range(1, 5)),
    };
    let src = if rng.chance(1, 3) { "iter" } else { "par" };
    let n = match rng.below(10) {
        0 => 0,
        1 => 1,
        2..=5 => rng.range(2, 12),
        _ => rng.range(40, 300),
    };
    // watermark after every k-th element, lateness 0..3, out-of-order timestamps in half of the cases
    let ts = if rng.chance(9, 10) {
        format!("ts{}:{}:{}", rng.pick(&[1, 1, 2, 3, 5]), rng.range(0, 3), rng.below(2))
    } else {
        "nots".to_string()
    };
    let sink = *rng.pick(&["vec", "vec", "vec1", "foreach"]);
    let mut c = Case::new(&["probe", cfg, &bm, src, &n.to_string(), &ts, sink]);
    let mut g = G { rng, ops: vec![], size: n };
    let steps = g.rng.range(1, 5);
    let loop_at = if i % 4 == 0 { g.rng.range(0, steps - 1) } else { -1 };
    for k in 0..steps {
        if k == loop_at {
            g.lp_ts();
        } else {
            g.stage_ts(0);
        }
    }
    c.ops = g.ops;
    if n >= 100 && f18_region(&c) && rng.chance(1, 2) {
        c.header[2] = "def".into();
    }
    c
}

// ------------------------------------------------------------------------------------------------

fn main() {
    let args = parse_args();
    let ts_mode = args.extra.iter().any(|a| a == "--ts");
    std::panic::set_hook(Box::new(|info| {
        let msg = if let Some(s) = info.payload().downcast_ref::<String>() {
            s.clone()
        } else if let Some(s) = info.payload().downcast_ref::<&str>() {
            s.to_string()
        } else {
            "unknown".into()
        };
        if std::env::var("PROBE_DEBUG").is_ok() {
            eprintln!("# panic at {:?}: {msg}", info.location().map(|l| format!("{}:{}", l.file(), l.line())));
        }
        if let Ok(mut l) = PANICS.lock() {
            l.push(msg);
        }
    }));
    let cases: Vec<(String, Case)> = match &args.replay {
        Some(p) => read_cases(p),
        None => {
            let mut rng = Rng::new(args.seed);
            (0..args.cases)
                .map(|i| {
                    let mut r = rng.fork();
                    if ts_mode {
                        (format!("probe-ts-{}-{i}", args.seed), gen_ts(&mut r, i))
                    } else {
                        (format!("probe-{}-{i}", args.seed), gen(&mut r, i))
                    }
                })
                .collect()
        }
    };
    let threads: usize = std::env::var("PROBE_THREADS").ok().and_then(|s| s.parse().ok()).unwrap_or(2);
    let n = cases.len();
    let cases = Arc::new(cases);
    let next = Arc::new(AtomicUsize::new(0));
    let results: Arc<Mutex<HashMap<usize, Vec<String>>>> = Arc::new(Mutex::new(HashMap::new()));
    let mut handles = vec![];
    for _ in 0..threads.max(1).min(n.max(1)) {
        let (cases, next, results) = (cases.clone(), next.clone(), results.clone());
        handles.push(std::thread::spawn(move || loop {
            let i = next.fetch_add(1, Ordering::SeqCst);
            if i >= cases.len() {
                break;
            }
            let r = guarded(exec, &cases[i].1);
            results.lock().unwrap().insert(i, r);
        }));
    }
    for h in handles {
        let _ = h.join();
    }
    let out = std::io::stdout();
    let mut out = std::io::BufWriter::new(out.lock());
    let results = results.lock().unwrap();
    for (i, (id, case)) in cases.iter().enumerate() {
        writeln!(out, "case {id} {}", case.header.join(" ")).unwrap();
        for op in &case.ops {
            writeln!(out, "{}", op.join(" ")).unwrap();
        }
        for r in results.get(&i).cloned().unwrap_or_else(|| vec!["panic:harness".into()]) {
            writeln!(out, "> {r}").unwrap();
        }
        writeln!(out, "end").unwrap();
    }
    out.flush().unwrap();
    drop(out);
    // detached (blocked) engine threads must not keep the process alive
    std::process::exit(0);
}
