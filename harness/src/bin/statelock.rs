//! C10 (component level): the REAL per-host `IterationStateLock` (hook
//! `renoir::verif::iteration::StateLock`). `lock`/`unlock` run on the harness thread, every
//! `wait_for_update(g)` on its own helper thread; a waiter that has not returned in time (40 ms, or
//! 1.5 s when the harness' own generation count says it should return) is
//! `blocked` and is polled again after every later `lock`/`unlock`.
//!
//! header: `statelock`
//! ops:    `lock` | `unlock` | `wait <generation>`
//! outputs: `<i> ok` (lock/unlock returned), `<i> panic` (unlock of an unlocked lock: `assert_eq!`;
//!          the mutex is poisoned, the case ends there), `<i> passed` / `<i> blocked` (wait),
//!          `<i> woke <j>` (after op i the waiter started by op j returned)
use std::panic::{catch_unwind, AssertUnwindSafe};
use std::sync::mpsc;
use std::time::Duration;

use nvh::*;
use renoir::verif::iteration::StateLock;

/// Patience: how long a helper thread is given to return. The harness keeps its own count of the
/// generation only to choose the patience (long when the waiter is expected to return, short when it is
/// expected to stay blocked); what is reported is always what the real lock did.
const LONG: Duration = Duration::from_millis(1500);
const SHORT: Duration = Duration::from_millis(40);

fn gen(rng: &mut Rng, _i: usize) -> Case {
    let mut c = Case::new(&["statelock"]);
    let n = rng.range(1, 12);
    let mut gen_est = 0i64; // rough estimate of the generation, to aim the waits at the boundary
    let mut waits = 0;
    for _ in 0..n {
        match rng.below(10) {
            0..=2 => {
                c.op(&["lock"]);
                if gen_est % 2 == 0 {
                    gen_est += 1;
                }
            }
            3..=5 => {
                // mostly legal unlocks
                if gen_est % 2 == 1 || rng.chance(1, 8) {
                    c.op(&["unlock"]);
                    if gen_est % 2 == 1 {
                        gen_est += 1;
                    }
                } else {
                    c.op(&["lock"]);
                    gen_est += 1;
                }
            }
            _ => {
                if waits < 4 {
                    waits += 1;
                    let g = match rng.below(4) {
                        0 => 0,
                        1 => gen_est + rng.range(-1, 1),
                        2 => 2 * ((gen_est + 2) / 2), // the Start's next even generation
                        _ => gen_est + rng.range(1, 4),
                    }
                    .max(0);
                    c.ops(vec!["wait".into(), g.to_string()]);
                } else {
                    c.op(&["lock"]);
                    if gen_est % 2 == 0 {
                        gen_est += 1;
                    }
                }
            }
        }
    }
    c
}

fn exec_inner(c: &Case) -> Vec<String> {
    let lock = StateLock::new();
    let mut out = vec![];
    let mut pending: Vec<(usize, usize, mpsc::Receiver<()>)> = vec![];
    let mut hint = 0usize; // generation as counted by the harness (patience only)
    let mut max_g = 0usize;
    let mut poisoned = false;
    for (i, w) in c.ops.iter().enumerate() {
        let mut poll = false;
        match w[0].as_str() {
            "lock" => {
                lock.lock();
                if hint % 2 == 0 {
                    hint += 1;
                }
                out.push(format!("{i} ok"));
            }
            "unlock" => {
                let l = lock.clone();
                if catch_unwind(AssertUnwindSafe(move || l.unlock())).is_ok() {
                    out.push(format!("{i} ok"));
                    hint += 1;
                    poll = true;
                } else {
                    out.push(format!("{i} panic"));
                    poisoned = true;
                    break;
                }
            }
            "wait" if w.len() == 2 => {
                let Ok(g) = w[1].parse::<usize>() else { continue };
                max_g = max_g.max(g);
                let (tx, rx) = mpsc::channel();
                let l = lock.clone();
                std::thread::spawn(move || {
                    l.wait_for_update(g);
                    let _ = tx.send(());
                });
                if rx.recv_timeout(if g <= hint { LONG } else { SHORT }).is_ok() {
                    out.push(format!("{i} passed"));
                } else {
                    out.push(format!("{i} blocked"));
                    pending.push((i, g, rx));
                }
            }
            _ => {}
        }
        if poll {
            let mut still = vec![];
            for (j, g, rx) in pending {
                if rx.recv_timeout(if g <= hint { LONG } else { SHORT }).is_ok() {
                    out.push(format!("{i} woke {j}"));
                } else {
                    still.push((j, g, rx));
                }
            }
            pending = still;
        }
    }
    // release the helper threads that are still waiting (not part of the observation)
    if !poisoned && !pending.is_empty() {
        for _ in 0..=(max_g / 2 + 1) {
            lock.lock();
            lock.unlock();
        }
    }
    out
}

fn exec(c: &Case) -> Vec<String> {
    let (tx, rx) = mpsc::channel();
    let c2 = c.clone();
    std::thread::spawn(move || {
        let _ = tx.send(guarded(exec_inner, &c2));
    });
    rx.recv_timeout(Duration::from_secs(10 * nvh::load_factor() as u64)).unwrap_or_else(|_| vec!["blocked".into()])
}

fn main() {
    run_main("statelock", gen, exec);
}
