//! C16 (operator chains), C05/C06 (stateless operators): the REAL stateless operators against
//! `liftStage` (lean/NoirVerif/Model/Stateless.lean), the model of a block's operator chain behind
//! `seq_chain_identity` (Props/C16Chain.lean).
//!
//! `Script` is a scripted source defined HERE (public traits `Operator` + `Source` only) that emits
//! EXACTLY the scripted `StreamElement` sequence (Item / Timestamped / Watermark / FlushBatch /
//! FlushAndRestart / Terminate), cut after the first `Terminate` (one is supplied if missing). The job
//! `ctx.stream(Script).<stage>…<stage>.add_operator(Rec).for_each(..)` runs on `RuntimeConfig::local(1)`;
//! every stage is a real operator reached through the public `Stream` / `KeyedStream` API, all of them
//! fused in the source's block; `Rec` (public `Operator` trait, `Stream::add_operator`) records every
//! raw element it hands to the sink.
//!
//! header: `stateless`; ops: `e <elem>` (script), `s <kind> <params…>` (stages, in order; ill-formed
//! lines are ignored); see lean/Driver/Stateless.lean for the list of kinds and their element
//! functions (the same text on both sides).
//! output: one line per element seen by `Rec` (`I:v`, `T:v:t`, `W:t`, `FB`, `FAR`, `TERM`), then
//! `ins <i> <list>` per inspect stage: the payloads its closure was called with | `blocked`.
use std::collections::VecDeque;
use std::fmt::Display;
use std::sync::{Arc, Mutex};
use std::time::Duration;

use nvh::e2e::{erase, erase_keyed, BoxOp, K, P};
use nvh::*;
use renoir::operator::source::Source;
use renoir::operator::{ElementGenerator, Operator, StreamElement};
use renoir::structure::{BlockStructure, OperatorStructure};
use renoir::{ExecutionMetadata, KeyedStream, Replication, RuntimeConfig, StreamContext};

#[derive(Clone)]
struct Script {
    buffer: VecDeque<StreamElement<Val>>,
}

impl Display for Script {
    fn fmt(&self, f: &mut std::fmt::Formatter<'_>) -> std::fmt::Result {
        write!(f, "Script")
    }
}

impl Operator for Script {
    type Out = Val;
    fn setup(&mut self, _metadata: &mut ExecutionMetadata) {}
    fn next(&mut self) -> StreamElement<Val> {
        self.buffer.pop_front().unwrap_or(StreamElement::Terminate)
    }
    fn structure(&self) -> BlockStructure {
        BlockStructure::default().add_operator(OperatorStructure::new::<Val, _>("Script"))
    }
}

impl Source for Script {
    fn replication(&self) -> Replication {
        Replication::One
    }
}

/// records every element it returns
#[derive(Clone)]
struct Rec<Op: Operator<Out = Val>> {
    prev: Op,
    rec: Arc<Mutex<Vec<String>>>,
}

impl<Op: Operator<Out = Val>> Display for Rec<Op> {
    fn fmt(&self, f: &mut std::fmt::Formatter<'_>) -> std::fmt::Result {
        write!(f, "{} -> Rec", self.prev)
    }
}

impl<Op: Operator<Out = Val>> Operator for Rec<Op> {
    type Out = Val;
    fn setup(&mut self, metadata: &mut ExecutionMetadata) {
        self.prev.setup(metadata);
    }
    fn next(&mut self) -> StreamElement<Val> {
        let e = self.prev.next();
        self.rec.lock().unwrap().push(fmt_elem(&e));
        e
    }
    fn structure(&self) -> BlockStructure {
        self.prev.structure().add_operator(OperatorStructure::new::<Val, _>("Rec"))
    }
}

// ------------------------------------------------------------------------------------------------
// the scripted element functions (the same text as in lean/Driver/Stateless.lean)

fn num(v: &Val) -> i64 {
    match v {
        Val::Int(n) => *n,
        Val::Tup(l) | Val::List(l) => l.iter().map(num).sum(),
        Val::Some(v) | Val::Left(v) | Val::Right(v) => num(v),
        _ => 0,
    }
}

fn add(k: i64, v: Val) -> Val {
    match v {
        Val::Int(n) => Val::Int(n + k),
        v => Val::pair(v, Val::Int(k)),
    }
}

fn as_vec(v: Val) -> Vec<Val> {
    match v {
        Val::List(l) => l,
        v => vec![v],
    }
}

fn rep(v: &Val) -> Vec<Val> {
    let n = num(v);
    (0..n.rem_euclid(3)).map(|j| Val::Int(n * 10 + j)).collect()
}

fn dup(n: i64, v: &Val) -> Vec<Val> {
    (0..n).map(|j| Val::pair(v.clone(), Val::Int(j))).collect()
}

fn half(v: &Val) -> Option<Val> {
    let n = num(v);
    if n.rem_euclid(2) == 0 {
        Some(Val::Int(n / 2))
    } else {
        None
    }
}

fn rich_enum(c: &mut i64, v: Val) -> Val {
    *c += 1;
    Val::pair(Val::Int(*c - 1), v)
}

fn rich_fmap(c: &mut i64, v: Val) -> Vec<Val> {
    *c += 1;
    dup((*c - 1).rem_euclid(3), &v)
}

fn rich_filter_map(c: &mut i64, v: Val) -> Option<Val> {
    *c += num(&v);
    if c.rem_euclid(2) == 0 {
        Some(Val::Int(*c))
    } else {
        None
    }
}

enum S {
    P(P),
    K(K),
}

fn pair_of((k, v): (Val, Val)) -> Val {
    Val::pair(k, v)
}

fn to_plain(s: S) -> P {
    match s {
        S::P(p) => p,
        // `unkey` is the identity on the operator chain; the map only packs the pair into a `Val`
        S::K(k) => erase(k.unkey().map(pair_of)),
    }
}

fn key_by(p: P, m: i64) -> K {
    erase_keyed(p.key_by(move |v: &Val| Val::Int(num(v).rem_euclid(m))))
}

fn to_keyed(s: S) -> K {
    match s {
        S::K(k) => k,
        S::P(p) => key_by(p, 3),
    }
}

type Ins = Arc<Mutex<Vec<Vec<Val>>>>;

fn new_inspect(ins: &Ins) -> usize {
    let mut g = ins.lock().unwrap();
    g.push(vec![]);
    g.len() - 1
}

fn int(w: &[String], i: usize) -> Option<i64> {
    w.get(i)?.parse::<i64>().ok()
}

/// one stage; `Err(s)` = ill-formed line, the stream is handed back untouched
fn apply(s: S, w: &[String], ins: &Ins) -> Result<S, S> {
    let ws: Vec<&str> = w.iter().map(|x| x.as_str()).collect();
    Ok(match ws.as_slice() {
        ["s", "map", "add", _] => {
            let Some(k) = int(w, 3) else { return Err(s) };
            S::P(erase(to_plain(s).map(move |v| add(k, v))))
        }
        ["s", "map", "wrap"] => S::P(erase(to_plain(s).map(|v: Val| Val::List(vec![v.clone(), add(1, v)])))),
        ["s", "filter", "mod", _, _] => {
            let (Some(m), Some(r)) = (int(w, 3), int(w, 4)) else { return Err(s) };
            if m < 1 {
                return Err(s);
            }
            S::P(erase(to_plain(s).filter(move |v| num(v).rem_euclid(m) == r)))
        }
        ["s", "fmap", "rep"] => S::P(erase(to_plain(s).flat_map(|v: Val| rep(&v)))),
        ["s", "fmap", "dup", _] => {
            let Some(n) = w[3].parse::<u64>().ok().filter(|n| *n <= 4) else { return Err(s) };
            S::P(erase(to_plain(s).flat_map(move |v: Val| dup(n as i64, &v))))
        }
        ["s", "filtermap", "half"] => S::P(erase(to_plain(s).filter_map(|v: Val| half(&v)))),
        ["s", "flatten"] => S::P(erase(to_plain(s).map(as_vec).flatten())),
        ["s", "inspect"] => {
            let p = to_plain(s);
            let (ins, i) = (ins.clone(), new_inspect(ins));
            S::P(erase(p.inspect(move |v: &Val| ins.lock().unwrap()[i].push(v.clone()))))
        }
        ["s", "richmap", "enum"] => S::P(erase(to_plain(s).rich_map({
            let mut c = 0i64;
            move |v: Val| rich_enum(&mut c, v)
        }))),
        ["s", "richfmap"] => S::P(erase(to_plain(s).rich_flat_map({
            let mut c = 0i64;
            move |v: Val| rich_fmap(&mut c, v)
        }))),
        ["s", "richfiltermap"] => S::P(erase(to_plain(s).rich_filter_map({
            let mut c = 0i64;
            move |v: Val| rich_filter_map(&mut c, v)
        }))),
        ["s", "custom", "add", _] => {
            let Some(k) = int(w, 3) else { return Err(s) };
            S::P(erase(
                to_plain(s).rich_map_custom(move |mut eg: ElementGenerator<BoxOp<Val>>| eg.next().map(|v| add(k, v))),
            ))
        }
        ["s", "dropts"] => S::P(erase(to_plain(s).drop_timestamps())),
        ["s", "addts", _] => {
            let Some(k) = int(w, 2).filter(|k| *k >= 1) else { return Err(s) };
            S::P(erase(to_plain(s).drop_timestamps().add_timestamps(
                |v: &Val| num(v) * 2,
                move |v: &Val, t: &i64| if num(v).rem_euclid(k) == 0 { Some(*t) } else { None },
            )))
        }
        ["s", "keyby", _] => {
            let Some(m) = int(w, 2).filter(|m| *m >= 1) else { return Err(s) };
            S::K(key_by(to_plain(s), m))
        }
        ["s", "kmap", "add", _] => {
            let Some(k) = int(w, 3) else { return Err(s) };
            S::K(erase_keyed(to_keyed(s).map(move |(key, v): (&Val, Val)| add(k + num(key), v))))
        }
        ["s", "kfilter", "mod", _, _] => {
            let (Some(m), Some(r)) = (int(w, 3), int(w, 4)) else { return Err(s) };
            if m < 1 {
                return Err(s);
            }
            S::K(erase_keyed(to_keyed(s).filter(move |(_, v): &(Val, Val)| num(v).rem_euclid(m) == r)))
        }
        ["s", "kfmap", "rep"] => S::K(erase_keyed(to_keyed(s).flat_map(|(_, v): (Val, Val)| rep(&v)))),
        ["s", "kfiltermap", "half"] => S::K(erase_keyed(to_keyed(s).filter_map(|(_, v): (&Val, Val)| half(&v)))),
        ["s", "kflatten"] => S::K(erase_keyed(to_keyed(s).map(|(_, v): (&Val, Val)| as_vec(v)).flatten())),
        ["s", "kinspect"] => {
            let k = to_keyed(s);
            let (ins, i) = (ins.clone(), new_inspect(ins));
            S::K(erase_keyed(
                k.inspect(move |(key, v): &(Val, Val)| ins.lock().unwrap()[i].push(Val::pair(key.clone(), v.clone()))),
            ))
        }
        ["s", "krichmap", "enum"] => S::K(erase_keyed(to_keyed(s).rich_map({
            let mut c = 0i64;
            move |(_, v): (&Val, Val)| rich_enum(&mut c, v)
        }))),
        ["s", "krichfmap"] => S::K(erase_keyed(to_keyed(s).rich_flat_map({
            let mut c = 0i64;
            move |(_, v): (&Val, Val)| rich_fmap(&mut c, v)
        }))),
        ["s", "krichfiltermap"] => S::K(erase_keyed(to_keyed(s).rich_filter_map({
            let mut c = 0i64;
            move |(_, v): (&Val, Val)| rich_filter_map(&mut c, v)
        }))),
        ["s", "kcustom"] => S::P(erase(
            to_keyed(s).rich_map_custom(|mut eg: ElementGenerator<BoxOp<(Val, Val)>>| eg.next().map(pair_of)),
        )),
        ["s", "unkey"] => S::P(to_plain(S::K(to_keyed(s)))),
        ["s", "dropkey"] => S::P(erase(to_keyed(s).drop_key())),
        ["s", "kdropts"] => S::K(KeyedStream(erase(to_keyed(s).drop_timestamps().0))),
        _ => return Err(s),
    })
}

fn exec(c: &Case) -> Vec<String> {
    let mut script: VecDeque<StreamElement<Val>> = VecDeque::new();
    for op in c.ops.iter().filter(|op| op.len() == 2 && op[0] == "e") {
        if let Some(e) = parse_elem(&op[1]) {
            let term = matches!(e, StreamElement::Terminate);
            script.push_back(e);
            if term {
                break;
            }
        }
    }
    let stages: Vec<Vec<String>> = c.ops.iter().filter(|op| op.first().map(|s| s == "s").unwrap_or(false)).cloned().collect();
    let rec = Arc::new(Mutex::new(Vec::<String>::new()));
    let ins: Ins = Arc::new(Mutex::new(vec![]));
    let (tx, rx) = std::sync::mpsc::channel();
    {
        let (rec, ins) = (rec.clone(), ins.clone());
        std::thread::spawn(move || {
            let r = std::panic::catch_unwind(std::panic::AssertUnwindSafe(|| {
                let ctx = StreamContext::new(RuntimeConfig::local(1).unwrap());
                let mut s = S::P(erase(ctx.stream(Script { buffer: script })));
                for w in &stages {
                    s = match apply(s, w, &ins) {
                        Ok(s) | Err(s) => s,
                    };
                }
                to_plain(s).add_operator(|prev| Rec { prev, rec }).for_each(|_| {});
                ctx.execute_blocking();
            }));
            let _ = tx.send(r.map_err(|e| {
                e.downcast_ref::<String>().cloned().or_else(|| e.downcast_ref::<&str>().map(|s| s.to_string())).unwrap_or_default()
            }));
        });
    }
    match rx.recv_timeout(Duration::from_secs(20 * nvh::load_factor() as u64)) {
        Ok(Ok(())) => {
            let mut out = rec.lock().unwrap().clone();
            for (i, vs) in ins.lock().unwrap().iter().enumerate() {
                out.push(format!("ins {i} {}", Val::List(vs.clone())));
            }
            out
        }
        Ok(Err(m)) => vec![format!("panic:{}", classify_panic(&m))],
        Err(_) => vec!["blocked".into()],
    }
}

// ------------------------------------------------------------------------------------------------
// generator

const PLAIN: &[&str] = &[
    "map add", "map wrap", "filter mod", "fmap rep", "fmap dup", "filtermap half", "flatten", "inspect",
    "richmap enum", "richfmap", "richfiltermap", "custom add", "dropts", "addts",
];
const KEYED: &[&str] = &[
    "keyby", "kmap add", "kfilter mod", "kfmap rep", "kfiltermap half", "kflatten", "kinspect",
    "krichmap enum", "krichfmap", "krichfiltermap", "kcustom", "unkey", "dropkey", "kdropts",
];

fn stage(rng: &mut Rng, kind: &str) -> Vec<String> {
    let mut w: Vec<String> = vec!["s".into()];
    w.extend(kind.split(' ').map(|s| s.to_string()));
    match kind {
        "map add" | "custom add" | "kmap add" => w.push(rng.range(-3, 9).to_string()),
        "filter mod" | "kfilter mod" => {
            let m = rng.range(1, 4);
            w.push(m.to_string());
            w.push(rng.range(0, m - 1).to_string());
        }
        "fmap dup" => w.push(rng.range(0, 3).to_string()),
        "addts" => w.push(rng.range(1, 3).to_string()),
        "keyby" => w.push(rng.range(1, 4).to_string()),
        _ => {}
    }
    w
}

fn gen(rng: &mut Rng, i: usize) -> Case {
    let mut c = Case::new(&["stateless"]);
    // stages: mostly one, sometimes a fused chain of 2-3; flat_map-like kinds are favoured a little
    let nst = match rng.below(10) {
        0..=4 => 1,
        5..=7 => 2,
        _ => 3,
    };
    let mut kinds = vec![];
    for _ in 0..nst {
        let k = match rng.below(12) {
            0 => "fmap rep",
            1 => "fmap dup",
            2 => "flatten",
            3 => "kfmap rep",
            4..=8 => *rng.pick(PLAIN),
            _ => *rng.pick(KEYED),
        };
        kinds.push(k);
        let w = stage(rng, k);
        c.ops(w);
    }
    let lists = kinds.first().map(|k| *k == "flatten" || *k == "kflatten").unwrap_or(false);
    let mut next = (i as i64 % 500) * 7 - 20;
    let iters = rng.range(1, 3);
    for _ in 0..iters {
        // shape of the iteration: empty, control-only, plain, timestamped, mixed (most)
        let shape = rng.below(10);
        let len = match shape {
            0 => 0,
            1 => rng.range(1, 3),
            _ => rng.range(1, 9),
        };
        let safe = !rng.chance(1, 10);
        let mut t = rng.range(-5, 20);
        let mut last_w: Option<i64> = None;
        for _ in 0..len {
            if shape == 1 {
                // control-only iteration
                if rng.chance(1, 2) {
                    c.ops(vec!["e".into(), "FB".into()]);
                } else {
                    t += rng.range(1, 3);
                    last_w = Some(t);
                    c.ops(vec!["e".into(), format!("W:{t}")]);
                }
                continue;
            }
            next += rng.range(1, 4);
            let v = if lists || rng.chance(1, 10) {
                let n = rng.below(4) as i64;
                Val::ints((0..n).map(|j| next * 2 + j))
            } else if rng.chance(1, 12) {
                Val::pair(Val::Int(next), Val::Int(rng.range(0, 2)))
            } else {
                Val::Int(next)
            };
            let timestamped = match shape {
                2 => false,
                3 => true,
                _ => rng.chance(1, 2),
            };
            if timestamped {
                if safe {
                    t += rng.range(0, 3);
                    if let Some(w) = last_w {
                        t = t.max(w + 1);
                    }
                } else {
                    t += rng.range(-3, 3);
                }
                c.ops(vec!["e".into(), fmt_elem(&StreamElement::Timestamped(v, t))]);
            } else {
                c.ops(vec!["e".into(), fmt_elem(&StreamElement::Item(v))]);
            }
            if rng.chance(1, 4) {
                // a watermark between the data (safe: above the last one, at most the last timestamp)
                let w = if safe { last_w.map(|w| w + 1).unwrap_or(t - 1).max(t - rng.range(0, 2)) } else { t + rng.range(-2, 2) };
                if !safe || last_w.map(|l| w > l).unwrap_or(true) {
                    last_w = Some(w);
                    t = t.max(w);
                    c.ops(vec!["e".into(), format!("W:{w}")]);
                }
            }
            if rng.chance(1, 10) {
                c.ops(vec!["e".into(), "FB".into()]);
            }
        }
        c.ops(vec!["e".into(), "FAR".into()]);
    }
    // 1/16 malformed: no final FAR / data after the last FAR
    if rng.chance(1, 16) {
        c.ops(vec!["e".into(), fmt_elem(&StreamElement::Item(Val::Int(next + 1)))]);
    }
    c.ops(vec!["e".into(), "TERM".into()]);
    c
}

fn main() {
    run_main("stateless", gen, exec);
}
