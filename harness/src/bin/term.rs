//! C04 (and an end-to-end tie for C01/C07–C11): real jobs from the catalogue on the real engine,
//! local and multi-host (loopback TCP), all batch modes, inputs from empty to far larger than the
//! total channel capacity; every run under a watchdog.
#[path = "../jobs.rs"]
mod jobs;

use std::time::Duration;

use jobs::*;
use nvh::*;

/// `--jobs a,b,c` restricts the generator to those jobs of the catalogue (used by the properties that
/// register this component for a family of jobs, e.g. the side-input jobs under C11)
fn job_filter() -> Vec<&'static str> {
    let args: Vec<String> = std::env::args().collect();
    match args.iter().position(|a| a == "--jobs").and_then(|p| args.get(p + 1)) {
        Some(list) => JOBS.iter().copied().filter(|j| list.split(',').any(|x| x == *j)).collect(),
        None => JOBS.to_vec(),
    }
}

fn gen(rng: &mut Rng, i: usize) -> Case {
    let jobs = job_filter();
    let job = jobs[(i + rng.below(3) as usize) % jobs.len()];
    // sizes: empty, tiny, around one batch, far above capacity (16 batches) with tiny batches
    let bm = *rng.pick(BMS);
    let n: i64 = match rng.below(6) {
        0 => 0,
        1 => rng.range(1, 5),
        2 => rng.range(10, 100),
        3 => rng.range(100, 700),
        _ => {
            if bm == "single" || bm == "fixed1" || bm == "fixed3" {
                rng.range(400, 3000)
            } else {
                rng.range(1000, 30000)
            }
        }
    };
    let cfg = match rng.below(8) {
        0 => "L1".to_string(),
        1 => "L2".to_string(),
        2 => "L3".to_string(),
        3 => "L4".to_string(),
        4 => "L7".to_string(),
        5 => "R2x2".to_string(),
        6 => "R1x3".to_string(),
        _ => "R2x1x2".to_string(),
    };
    let mut c = Case::new(&["term", job, &n.to_string(), bm, &cfg]);
    c.op(&["run"]);
    c
}

pub fn fmt_sink(idx: usize, v: &mut Vec<Vec<i64>>) -> String {
    v.sort();
    let len = v.len();
    let sum: i128 = v.iter().flat_map(|e| e.iter()).map(|x| *x as i128).sum();
    let sum = (sum.rem_euclid(1_000_000_007)) as i64;
    if len <= 40 {
        let items: Vec<String> = v
            .iter()
            .map(|e| format!("({})", e.iter().map(|x| x.to_string()).collect::<Vec<_>>().join(",")))
            .collect();
        format!("sink {idx} {len} {sum} [{}]", items.join(","))
    } else {
        format!("sink {idx} {len} {sum}")
    }
}

fn exec(c: &Case) -> Vec<String> {
    if c.ops.is_empty() {
        return vec![];
    }
    let job = &c.header[1];
    let n: i64 = c.header[2].parse().unwrap();
    let bm = &c.header[3];
    let cfg = parse_cfg(&c.header[4]);
    static UNIQ: std::sync::atomic::AtomicU32 = std::sync::atomic::AtomicU32::new(0);
    let mut out = vec![];
    for attempt in 0..2 {
        out.clear();
        let uniq = UNIQ.fetch_add(1, std::sync::atomic::Ordering::SeqCst);
        let r = run_job(job, n, bm, &cfg, None, uniq, Duration::from_secs(30 * nvh::load_factor() as u64));
        let mut infra = false;
        let mut nsinks = 0;
        for h in &r.hosts {
            match h {
                None => out.push("blocked".to_string()),
                Some(ho) => {
                    if let Err(m) = &ho.exec {
                        if is_infra(m) {
                            infra = true;
                        }
                        out.push(format!("panic:{}", classify_panic(m)));
                    }
                    nsinks = nsinks.max(ho.sinks.len());
                }
            }
        }
        if infra && attempt == 0 {
            continue;
        }
        if infra {
            return vec!["infra".to_string()];
        }
        if !out.is_empty() {
            out.sort();
            out.dedup();
            return out;
        }
        // every sink must be published by exactly one host
        for s in 0..nsinks {
            let mut published: Vec<Vec<Vec<i64>>> = vec![];
            for h in &r.hosts {
                if let Some(ho) = h {
                    if let Some(Some(v)) = ho.sinks.get(s) {
                        published.push(v.clone());
                    }
                }
            }
            if published.len() != 1 {
                out.push(format!("sink {s} published {} times", published.len()));
            } else {
                out.push(fmt_sink(s, &mut published[0]));
            }
        }
        break;
    }
    out
}

fn main() {
    run_main("term", gen, exec);
}
