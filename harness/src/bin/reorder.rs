//! C16 (reorder): the REAL `Reorder` operator (`renoir::verif::ops::reorder`) on a scripted
//! upstream. header: `reorder`; ops: `e <elem>`; outputs: `<idx> <elem>` (`idx` = index of the last
//! script element pulled before the output was returned).
#[path = "../c07_common.rs"]
mod common;
use common::*;
use nvh::*;
use renoir::verif::{ops, ScriptOp};

fn gen(rng: &mut Rng, _i: usize) -> Case {
    // per-component stream: components run with the same --seed must not draw identical sequences
    let rng = &mut Rng::new(rng.next() ^ 0x2E02_DE20_0000_0003);
    let cfg = ScriptCfg {
        max_len: 14,
        allow_unsafe: true,
        allow_malformed: true,
        dup16: 5,
    };
    // distinct payloads: the stable order of equal timestamps is observable
    let script = gen_script(rng, &cfg, |_, seq| Val::Int(seq));
    script_case(&["reorder"], &script)
}

fn exec(c: &Case) -> Vec<String> {
    let (probe, pulls) = Probe::new(ScriptOp::new(parse_script(c)));
    let op = ops::reorder(probe);
    fmt_out(&drive(op, &pulls, |v| v))
}

fn main() {
    run_main("reorder", gen, exec);
}
