//! C10 (whole engine): real `replay` / `iterate` jobs (public API) on `RuntimeConfig::local(cores)` or
//! on two in-process hosts over loopback TCP. Every body closure that reads the iteration state
//! records `(loop level, round of the element it is processing, observed state, replica)`. The round
//! is carried by the data: inside `iterate` the body's last map increments it; inside `replay` the
//! first operator after the `Replay` (same block, same thread) numbers the elements it is handed and
//! divides by the number of input elements that replica has seen (counted by a map in front of the
//! `Replay`), i.e. round = position in the replayed sequence / length of the replica's content.
//! Engine cases run sequentially (the link observer and the records are process-global); each one
//! under a 20 s watchdog (`blocked`).
//!
//! header: `loops <kind> <hosts> <cores> <max> <body> <fold> <cond> <init> <delay> <maxInner>`
//!   kind  ∈ replay | iterate | nested (a replay inside a replay) | nestri (an iterate inside a replay)
//!         | nestir (a replay inside an iterate)
//!         | nestrx / nestrm (iterate inside a replay; the outer body returns the inner ITEMS stream /
//!           the inner state element merged with the inner items stream)
//!         | nestix / nestim (the same inside an outer iterate)
//!   body  ∈ map | shmap | mapsh | filt | group | kf2 (shuffle, map, group_by+fold, map)
//!         | join (replay only: split + self-join on x mod 4)   (single loops)
//!         ∈ n0 | n1 | n2 | n3                              (nested: no shuffle | inner | outer | both)
//!   fold  ∈ sum | cnt | max | nd                           (local/global fold pair)
//!   cond  ∈ T | F | lt:<b> | dec | ltm:<b>                 (loop_condition, may mutate)
//!   delay ∈ none | fb | fbo | data    fb: every state-feedback message is held 2 ms by the receiving
//!           head replicas of the last host/replica; fbo: only the outermost leader's feedback, 15 ms, at
//!           the last host (single host: last replica); data: data batches towards replica 0 held 1 ms;
//!           a trailing `s` (`nones`, `fbos`, …) additionally runs the job with `BatchMode::single()`
//! ops:    `i <x>` input elements
//! outputs: `state <list>` (collect_vec of the state stream), `items <sorted list>` (iterate),
//!          `obs <o|i> <round> <distinct observed states…>`  (round = `k`, inner level: `<ko>.<ki>`)
//!          nested kinds: `rd <ko>.<ki> <x> <outer state read> <inner state read>` per element of the inner
//!          body (sorted); placement metadata `at o <ko> <state> <hosts…>`, `at leader <host>`
//!   hosts = 1: `RuntimeConfig::local(cores)`; 2 or 3: in-process hosts over loopback TCP
//!   delay fbn: feedback towards head replicas that are not the local leader of their host held 3 ms
use std::collections::{BTreeMap, BTreeSet, HashMap};
use std::sync::atomic::{AtomicU64, Ordering};
use std::sync::{Arc, Mutex};
use std::time::Duration;

use nvh::*;
use renoir::config::{ConfigBuilder, HostConfig};
use renoir::operator::source::IteratorSource;
use renoir::operator::Operator;
use renoir::verif::{replica_coord, set_link_observer, LinkEvent};
use renoir::{IterationStateHandle, RuntimeConfig, Stream, StreamContext};

/// (outer round, inner round, value)
type E = (i64, i64, i64);

/// (run, level, outer round, inner round, observed state, host, replica, block)
static OBS: Mutex<Vec<(u64, u8, i64, i64, i64, u64, u64, u64)>> = Mutex::new(Vec::new());
/// (run, level, host, replica, outer round) -> number of input elements seen in front of the Replay
static SEEN: Mutex<Option<HashMap<(u64, u8, u64, u64, i64), i64>>> = Mutex::new(None);
/// nested kinds: (run, outer round, inner round, x, outer state read, inner state read, host) per element
static RDS: Mutex<Vec<(u64, i64, i64, i64, i64, i64, u64)>> = Mutex::new(Vec::new());
/// run -> number of results the inner loop has produced so far (kind `nestir`: round of the fed-back element)
static RESULTS: Mutex<Option<HashMap<u64, i64>>> = Mutex::new(None);
/// leader block -> host it runs on (learnt from the feedback messages)
static LEADERS: Mutex<BTreeMap<u64, u64>> = Mutex::new(BTreeMap::new());
static RUN: AtomicU64 = AtomicU64::new(1);
static SLEEPS: AtomicU64 = AtomicU64::new(0);

#[derive(Clone, Debug)]
struct Cfg {
    run: u64,
    kind: String,
    hosts: u64,
    cores: u64,
    max: usize,
    body: String,
    fold: String,
    cond: String,
    init: i64,
    delay: String,
    max_inner: usize,
    input: Vec<i64>,
}

fn here() -> (u64, u64, u64) {
    let c = replica_coord().expect("closure outside a worker");
    (c.host_id, c.replica_id, c.block_id)
}

fn seen_inc(run: u64, level: u8, ko: i64) {
    let (h, r, _) = here();
    let mut g = SEEN.lock().unwrap();
    *g.get_or_insert_with(HashMap::new).entry((run, level, h, r, ko)).or_insert(0) += 1;
}

fn seen_get(run: u64, level: u8, ko: i64) -> i64 {
    let (h, r, _) = here();
    let g = SEEN.lock().unwrap();
    g.as_ref().and_then(|m| m.get(&(run, level, h, r, ko)).copied()).unwrap_or(1).max(1)
}

/// read the state handle and record the observation
fn rd(run: u64, st: &IterationStateHandle<i64>, level: u8, e: &E) -> i64 {
    let s = *st.get();
    let (h, r, b) = here();
    OBS.lock().unwrap().push((run, level, e.0, e.1, s, h, r, b));
    s
}

/// the inner body of the nested kinds: reads BOTH states, records them per element
fn rd2(run: u64, so: &IterationStateHandle<i64>, si: &IterationStateHandle<i64>, e: &E) -> (i64, i64) {
    let vo = rd(run, so, 0, e);
    let vi = rd(run, si, 1, e);
    RDS.lock().unwrap().push((run, e.0, e.1, e.2, vo, vi, here().0));
    (vo, vi)
}

fn next_result(run: u64) -> i64 {
    let mut g = RESULTS.lock().unwrap();
    let c = g.get_or_insert_with(HashMap::new).entry(run).or_insert(0);
    *c += 1;
    *c
}

fn local_fold(kind: &str, d: &mut i64, e: E) {
    match kind {
        "sum" => *d += e.2,
        "cnt" => *d += 1,
        "max" => *d = (*d).max(e.2),
        _ => {}
    }
}

fn global_fold(kind: &str, s: &mut i64, d: i64) {
    match kind {
        "sum" | "cnt" => *s += d,
        "max" => *s = (*s).max(d),
        _ => *s += 1, // nd: counts the deltas
    }
}

fn loop_cond(kind: &str, s: &mut i64) -> bool {
    if kind == "T" {
        true
    } else if kind == "F" {
        false
    } else if let Some(b) = kind.strip_prefix("lt:") {
        *s < b.parse::<i64>().unwrap()
    } else if kind == "dec" {
        *s -= 1;
        true
    } else if let Some(b) = kind.strip_prefix("ltm:") {
        *s += 1;
        *s < b.parse::<i64>().unwrap()
    } else {
        panic!("bad cond {kind}")
    }
}

const M: i64 = 1000;

/// `delay` values ending in `s` (e.g. `fbos`, `nones`) run the job with `BatchMode::single()`
fn batch_mode(cfg: &Cfg) -> renoir::BatchMode {
    if cfg.delay.ends_with('s') {
        renoir::BatchMode::single()
    } else {
        renoir::BatchMode::default()
    }
}

// ---------------------------------------------------------------------------------------------
// loop bodies (generic in the head operator so that `replay` and `iterate` share them)

fn body_map<Op: Operator<Out = E> + 'static>(run: u64, s: Stream<Op>, st: IterationStateHandle<i64>) -> Stream<impl Operator<Out = E>> {
    s.map(move |e: E| {
        let v = rd(run, &st, 0, &e);
        (e.0, e.1, (e.2 + v).rem_euclid(M))
    })
}

fn body_shmap<Op: Operator<Out = E> + 'static>(run: u64, s: Stream<Op>, st: IterationStateHandle<i64>) -> Stream<impl Operator<Out = E>> {
    s.shuffle().map(move |e: E| {
        let v = rd(run, &st, 0, &e);
        (e.0, e.1, (e.2 + v).rem_euclid(M))
    })
}

fn body_mapsh<Op: Operator<Out = E> + 'static>(run: u64, s: Stream<Op>, st: IterationStateHandle<i64>) -> Stream<impl Operator<Out = E>> {
    let st2 = st.clone();
    s.map(move |e: E| {
        let v = rd(run, &st, 0, &e);
        (e.0, e.1, (e.2 + v).rem_euclid(M))
    })
    .shuffle()
    .map(move |e: E| {
        let v = rd(run, &st2, 0, &e);
        (e.0, e.1, (2 * e.2 + v).rem_euclid(M))
    })
}

fn body_filt<Op: Operator<Out = E> + 'static>(run: u64, s: Stream<Op>, st: IterationStateHandle<i64>) -> Stream<impl Operator<Out = E>> {
    s.shuffle()
        .filter(move |e: &E| {
            let v = rd(run, &st, 0, e);
            (e.2 + v).rem_euclid(3) != 0
        })
        .map(|e: E| (e.0, e.1, (e.2 + 1).rem_euclid(M)))
}

fn body_group<Op: Operator<Out = E> + 'static>(run: u64, s: Stream<Op>, st: IterationStateHandle<i64>) -> Stream<impl Operator<Out = E>> {
    s.group_by(|e: &E| e.2.rem_euclid(3))
        .reduce(|a: &mut E, b: E| a.2 += b.2)
        .drop_key()
        .map(move |e: E| {
            let v = rd(run, &st, 0, &e);
            (e.0, e.1, (e.2.rem_euclid(50) + v).rem_euclid(M))
        })
}

/// keyed fold spanning two internal shuffles: shuffle, map (reads), group_by + fold, map (reads)
fn body_kf2<Op: Operator<Out = E> + 'static>(run: u64, s: Stream<Op>, st: IterationStateHandle<i64>) -> Stream<impl Operator<Out = E>> {
    let st2 = st.clone();
    s.shuffle()
        .map(move |e: E| {
            let v = rd(run, &st, 0, &e);
            (e.0, e.1, (e.2 + v).rem_euclid(M))
        })
        .group_by(|e: &E| e.2.rem_euclid(3))
        .fold((0i64, 0i64, 0i64), |acc: &mut E, e: E| {
            acc.0 = e.0;
            acc.1 = e.1;
            acc.2 += e.2;
        })
        .drop_key()
        .map(move |e: E| {
            let v = rd(run, &st2, 0, &e);
            (e.0, e.1, (e.2.rem_euclid(50) + v).rem_euclid(M))
        })
}

/// self-join (two group-by shuffles) of the mapped stream with the original one on `x mod 4`
fn body_join<Op: Operator<Out = E> + 'static>(run: u64, s: Stream<Op>, st: IterationStateHandle<i64>) -> Stream<impl Operator<Out = E>> {
    let st2 = st.clone();
    let mut v = s.split(2);
    let b = v.pop().unwrap();
    let a = v.pop().unwrap();
    a.map(move |e: E| {
        let v = rd(run, &st, 0, &e);
        (e.0, e.1, (e.2 + v).rem_euclid(M))
    })
    .join(b, |e: &E| e.2.rem_euclid(4), |e: &E| e.2.rem_euclid(4))
    .drop_key()
    .map(move |(l, r): (E, E)| {
        let v = rd(run, &st2, 0, &l);
        (l.0, l.1, (l.2 + r.2 + v).rem_euclid(M))
    })
}

/// numbers the elements handed out by the outer `Replay` of this replica: round = position / content length
fn tag_outer(run: u64) -> impl FnMut(E) -> E + Clone + Send + 'static {
    let mut j = 0i64;
    move |e: E| {
        let c = seen_get(run, 0, 0);
        let k = j / c;
        j += 1;
        (k, e.1, e.2)
    }
}

/// same for the inner `Replay`, separately for every outer round (the inner content is cleared when the
/// inner loop finishes)
fn tag_inner(run: u64) -> impl FnMut(E) -> E + Clone + Send + 'static {
    let mut js: HashMap<i64, i64> = HashMap::new();
    move |e: E| {
        let c = seen_get(run, 1, e.0);
        let j = js.entry(e.0).or_insert(0);
        let k = *j / c;
        *j += 1;
        (e.0, k, e.2)
    }
}

type Outputs = (renoir::prelude::StreamOutput<Vec<i64>>, Option<renoir::prelude::StreamOutput<Vec<E>>>);

macro_rules! replay_job {
    ($env:expr, $cfg:expr, $bodyfn:ident) => {{
        let cfg: Cfg = $cfg.clone();
        let run = cfg.run;
        let (f1, f2, c1) = (cfg.fold.clone(), cfg.fold.clone(), cfg.cond.clone());
        let src = $env
            .stream(IteratorSource::new(cfg.input.clone().into_iter()))
            .batch_mode(batch_mode(&cfg))
            .shuffle()
            .map(move |x: i64| {
                seen_inc(run, 0, 0);
                (0i64, 0i64, x)
            });
        let st = src.replay(
            cfg.max,
            cfg.init,
            move |s, st| $bodyfn(run, s.rich_map(tag_outer(run)), st),
            move |d: &mut i64, e: E| local_fold(&f1, d, e),
            move |s: &mut i64, d: i64| global_fold(&f2, s, d),
            move |s: &mut i64| loop_cond(&c1, s),
        );
        let r: Outputs = (st.collect_vec(), None);
        r
    }};
}

macro_rules! iterate_job {
    ($env:expr, $cfg:expr, $bodyfn:ident) => {{
        let cfg: Cfg = $cfg.clone();
        let run = cfg.run;
        let (f1, f2, c1) = (cfg.fold.clone(), cfg.fold.clone(), cfg.cond.clone());
        let src = $env
            .stream(IteratorSource::new(cfg.input.clone().into_iter()))
            .batch_mode(batch_mode(&cfg))
            .shuffle()
            .map(move |x: i64| (0i64, 0i64, x));
        let (st, items) = src.iterate(
            cfg.max,
            cfg.init,
            move |s, st| $bodyfn(run, s, st).map(|e: E| (e.0 + 1, e.1, e.2)),
            move |d: &mut i64, e: E| local_fold(&f1, d, e),
            move |s: &mut i64, d: i64| global_fold(&f2, s, d),
            move |s: &mut i64| loop_cond(&c1, s),
        );
        let r: Outputs = (st.collect_vec(), Some(items.collect_vec()));
        r
    }};
}

macro_rules! maybe_shuffle {
    (true, $s:expr) => {
        $s.shuffle()
    };
    (false, $s:expr) => {
        $s
    };
}

/// a replay inside a replay; `$osh` / `$ish`: shuffle in the outer body in front of the inner replay /
/// inside the inner body. The inner body reads BOTH states. Inner loop: init 1, fold sum, condition
/// true, bound `maxInner`; its result (one element, mod 1000) is the outer body's output.
macro_rules! nested_job {
    ($env:expr, $cfg:expr, $osh:tt, $ish:tt) => {{
        let cfg: Cfg = $cfg.clone();
        let run = cfg.run;
        let max_inner = cfg.max_inner;
        let (f1, f2, c1) = (cfg.fold.clone(), cfg.fold.clone(), cfg.cond.clone());
        let src = $env
            .stream(IteratorSource::new(cfg.input.clone().into_iter()))
            .batch_mode(batch_mode(&cfg))
            .shuffle()
            .map(move |x: i64| {
                seen_inc(run, 0, 0);
                (0i64, 0i64, x)
            });
        let st = src.replay(
            cfg.max,
            cfg.init,
            move |s, so: IterationStateHandle<i64>| {
                let s = s.rich_map(tag_outer(run));
                let s = maybe_shuffle!($osh, s).map(move |e: E| {
                    seen_inc(run, 1, e.0);
                    e
                });
                s.replay(
                    max_inner,
                    1i64,
                    move |s2, si: IterationStateHandle<i64>| {
                        let s2 = s2.rich_map(tag_inner(run));
                        maybe_shuffle!($ish, s2).map(move |e: E| {
                            let (vo, vi) = rd2(run, &so, &si, &e);
                            (e.0, e.1, (e.2 + vo + vi).rem_euclid(M))
                        })
                    },
                    |d: &mut i64, e: E| *d += e.2,
                    |s: &mut i64, d: i64| *s += d,
                    |_s: &mut i64| true,
                )
                .map(|f: i64| (0i64, 0i64, f.rem_euclid(M)))
            },
            move |d: &mut i64, e: E| local_fold(&f1, d, e),
            move |s: &mut i64, d: i64| global_fold(&f2, s, d),
            move |s: &mut i64| loop_cond(&c1, s),
        );
        let r: Outputs = (st.collect_vec(), None);
        r
    }};
}

/// what the outer body does with the two streams of an inner `iterate` (`$tag`: the outer-round tag of
/// the state element): F = the final inner state only (items go to a sink), X = the ITEMS stream is the
/// outer body's result (state goes to a sink), M = the state element merged with the items stream
macro_rules! inner_out {
    (F, $ist:expr, $items:expr, $tag:expr) => {{
        $items.for_each(|_e: E| ());
        $ist.map(move |f: i64| ($tag, 0i64, f.rem_euclid(M)))
    }};
    (X, $ist:expr, $items:expr, $tag:expr) => {{
        $ist.for_each(|_f: i64| ());
        $items
    }};
    (M, $ist:expr, $items:expr, $tag:expr) => {{
        $ist.map(move |f: i64| ($tag, 0i64, f.rem_euclid(M))).merge($items)
    }};
}

/// an ITERATE inside a replay: the inner loop feeds its output back (`ki` is carried by the data); its
/// last round's items go to a sink, its final state (one element, mod 1000) is the outer body's output
macro_rules! nestri_job {
    ($env:expr, $cfg:expr, $osh:tt, $ish:tt, $out:tt) => {{
        let cfg: Cfg = $cfg.clone();
        let run = cfg.run;
        let max_inner = cfg.max_inner;
        let (f1, f2, c1) = (cfg.fold.clone(), cfg.fold.clone(), cfg.cond.clone());
        let src = $env
            .stream(IteratorSource::new(cfg.input.clone().into_iter()))
            .batch_mode(batch_mode(&cfg))
            .shuffle()
            .map(move |x: i64| {
                seen_inc(run, 0, 0);
                (0i64, 0i64, x)
            });
        let st = src.replay(
            cfg.max,
            cfg.init,
            move |s, so: IterationStateHandle<i64>| {
                let s = s.rich_map(tag_outer(run));
                let s = maybe_shuffle!($osh, s);
                let (ist, items) = s.iterate(
                    max_inner,
                    1i64,
                    move |s2, si: IterationStateHandle<i64>| {
                        maybe_shuffle!($ish, s2).map(move |e: E| {
                            let (vo, vi) = rd2(run, &so, &si, &e);
                            (e.0, e.1 + 1, (e.2 + vo + vi).rem_euclid(M))
                        })
                    },
                    |d: &mut i64, e: E| *d += e.2,
                    |s: &mut i64, d: i64| *s += d,
                    |_s: &mut i64| true,
                );
                inner_out!($out, ist, items, 0i64)
            },
            move |d: &mut i64, e: E| local_fold(&f1, d, e),
            move |s: &mut i64, d: i64| global_fold(&f2, s, d),
            move |s: &mut i64| loop_cond(&c1, s),
        );
        let r: Outputs = (st.collect_vec(), None);
        r
    }};
}

/// a REPLAY inside an iterate: the inner loop's result is the single element fed back into the next
/// outer round; its outer-round tag is the number of inner results produced so far (exactly one per
/// execution of the inner loop)
macro_rules! nestir_job {
    ($env:expr, $cfg:expr, $osh:tt, $ish:tt) => {{
        let cfg: Cfg = $cfg.clone();
        let run = cfg.run;
        let max_inner = cfg.max_inner;
        let (f1, f2, c1) = (cfg.fold.clone(), cfg.fold.clone(), cfg.cond.clone());
        let src = $env
            .stream(IteratorSource::new(cfg.input.clone().into_iter()))
            .batch_mode(batch_mode(&cfg))
            .shuffle()
            .map(move |x: i64| (0i64, 0i64, x));
        let (st, items) = src.iterate(
            cfg.max,
            cfg.init,
            move |s, so: IterationStateHandle<i64>| {
                let s = maybe_shuffle!($osh, s).map(move |e: E| {
                    seen_inc(run, 1, e.0);
                    e
                });
                s.replay(
                    max_inner,
                    1i64,
                    move |s2, si: IterationStateHandle<i64>| {
                        let s2 = s2.rich_map(tag_inner(run));
                        maybe_shuffle!($ish, s2).map(move |e: E| {
                            let (vo, vi) = rd2(run, &so, &si, &e);
                            (e.0, e.1, (e.2 + vo + vi).rem_euclid(M))
                        })
                    },
                    |d: &mut i64, e: E| *d += e.2,
                    |s: &mut i64, d: i64| *s += d,
                    |_s: &mut i64| true,
                )
                .map(move |f: i64| (next_result(run), 0i64, f.rem_euclid(M)))
            },
            move |d: &mut i64, e: E| local_fold(&f1, d, e),
            move |s: &mut i64, d: i64| global_fold(&f2, s, d),
            move |s: &mut i64| loop_cond(&c1, s),
        );
        let r: Outputs = (st.collect_vec(), Some(items.collect_vec()));
        r
    }};
}

/// an ITERATE inside an iterate. The items of the inner loop keep the outer-round tag of the data; the
/// state element is tagged with the number of inner results so far; the outer body's last map moves
/// everything to the next outer round.
macro_rules! nestii_job {
    ($env:expr, $cfg:expr, $osh:tt, $ish:tt, $out:tt) => {{
        let cfg: Cfg = $cfg.clone();
        let run = cfg.run;
        let max_inner = cfg.max_inner;
        let (f1, f2, c1) = (cfg.fold.clone(), cfg.fold.clone(), cfg.cond.clone());
        let src = $env
            .stream(IteratorSource::new(cfg.input.clone().into_iter()))
            .batch_mode(batch_mode(&cfg))
            .shuffle()
            .map(move |x: i64| (0i64, 0i64, x));
        let (st, items) = src.iterate(
            cfg.max,
            cfg.init,
            move |s, so: IterationStateHandle<i64>| {
                let s = maybe_shuffle!($osh, s);
                let (ist, items) = s.iterate(
                    max_inner,
                    1i64,
                    move |s2, si: IterationStateHandle<i64>| {
                        maybe_shuffle!($ish, s2).map(move |e: E| {
                            let (vo, vi) = rd2(run, &so, &si, &e);
                            (e.0, e.1 + 1, (e.2 + vo + vi).rem_euclid(M))
                        })
                    },
                    |d: &mut i64, e: E| *d += e.2,
                    |s: &mut i64, d: i64| *s += d,
                    |_s: &mut i64| true,
                );
                // the state element of outer round k is tagged k (next_result counts from 1)
                inner_out!($out, ist, items, next_result(run) - 1).map(|e: E| (e.0 + 1, 0i64, e.2))
            },
            move |d: &mut i64, e: E| local_fold(&f1, d, e),
            move |s: &mut i64, d: i64| global_fold(&f2, s, d),
            move |s: &mut i64| loop_cond(&c1, s),
        );
        let r: Outputs = (st.collect_vec(), Some(items.collect_vec()));
        r
    }};
}

fn build(env: &StreamContext, cfg: &Cfg) -> Outputs {
    match (cfg.kind.as_str(), cfg.body.as_str()) {
        ("replay", "map") => replay_job!(env, cfg, body_map),
        ("replay", "shmap") => replay_job!(env, cfg, body_shmap),
        ("replay", "mapsh") => replay_job!(env, cfg, body_mapsh),
        ("replay", "filt") => replay_job!(env, cfg, body_filt),
        ("replay", "group") => replay_job!(env, cfg, body_group),
        ("iterate", "map") => iterate_job!(env, cfg, body_map),
        ("iterate", "shmap") => iterate_job!(env, cfg, body_shmap),
        ("iterate", "mapsh") => iterate_job!(env, cfg, body_mapsh),
        ("iterate", "filt") => iterate_job!(env, cfg, body_filt),
        ("iterate", "group") => iterate_job!(env, cfg, body_group),
        ("replay", "kf2") => replay_job!(env, cfg, body_kf2),
        ("replay", "join") => replay_job!(env, cfg, body_join),
        ("iterate", "kf2") => iterate_job!(env, cfg, body_kf2),
        ("nestri", "n0") => nestri_job!(env, cfg, false, false, F),
        ("nestri", "n1") => nestri_job!(env, cfg, false, true, F),
        ("nestri", "n2") => nestri_job!(env, cfg, true, false, F),
        ("nestri", "n3") => nestri_job!(env, cfg, true, true, F),
        ("nestrx", "n0") => nestri_job!(env, cfg, false, false, X),
        ("nestrx", "n1") => nestri_job!(env, cfg, false, true, X),
        ("nestrx", "n2") => nestri_job!(env, cfg, true, false, X),
        ("nestrx", "n3") => nestri_job!(env, cfg, true, true, X),
        ("nestrm", "n0") => nestri_job!(env, cfg, false, false, M),
        ("nestrm", "n1") => nestri_job!(env, cfg, false, true, M),
        ("nestrm", "n2") => nestri_job!(env, cfg, true, false, M),
        ("nestrm", "n3") => nestri_job!(env, cfg, true, true, M),
        ("nestix", "n0") => nestii_job!(env, cfg, false, false, X),
        ("nestix", "n1") => nestii_job!(env, cfg, false, true, X),
        ("nestix", "n2") => nestii_job!(env, cfg, true, false, X),
        ("nestix", "n3") => nestii_job!(env, cfg, true, true, X),
        ("nestim", "n0") => nestii_job!(env, cfg, false, false, M),
        ("nestim", "n1") => nestii_job!(env, cfg, false, true, M),
        ("nestim", "n2") => nestii_job!(env, cfg, true, false, M),
        ("nestim", "n3") => nestii_job!(env, cfg, true, true, M),
        ("nestir", "n0") => nestir_job!(env, cfg, false, false),
        ("nestir", "n1") => nestir_job!(env, cfg, false, true),
        ("nestir", "n2") => nestir_job!(env, cfg, true, false),
        ("nestir", "n3") => nestir_job!(env, cfg, true, true),
        ("nested", "n0") => nested_job!(env, cfg, false, false),
        ("nested", "n1") => nested_job!(env, cfg, false, true),
        ("nested", "n2") => nested_job!(env, cfg, true, false),
        ("nested", "n3") => nested_job!(env, cfg, true, true),
        (k, b) => panic!("bad kind/body {k}/{b}"),
    }
}

// ---------------------------------------------------------------------------------------------
// running a job

fn observer(cfg: &Cfg) -> Arc<dyn Fn(&LinkEvent) + Send + Sync> {
    let delay = cfg.delay.clone();
    let (hosts, cores) = (cfg.hosts, cfg.cores);
    Arc::new(move |e: &LinkEvent| {
        if e.send {
            if let Some(p) = &e.payload {
                if p.contains("\"Continue\"") || p.contains("\"Finished\"") {
                    LEADERS.lock().unwrap().insert(e.sender.block_id, e.sender.host_id);
                }
            }
        }
        let (is_leader, is_outer) = {
            let l = LEADERS.lock().unwrap();
            (l.contains_key(&e.sender.block_id), l.keys().next() == Some(&e.sender.block_id))
        };
        let last_place = if hosts > 1 { e.dest.host_id == hosts - 1 } else { e.dest.replica_id == cores - 1 };
        let ms = match delay.trim_end_matches('s') {
            "fb" if !e.send && is_leader && last_place => 2,
            "fbo" if !e.send && is_leader && is_outer && last_place => 15,
            // towards the head replicas that are NOT the local leader of their host
            "fbn" if !e.send && is_leader && e.dest.replica_id != 0 => 3,
            "data" if e.send && !is_leader && e.dest.replica_id == 0 && e.kinds.iter().any(|k| k.0 == "I") => 1,
            _ => 0,
        };
        if ms > 0 && SLEEPS.fetch_add(1, Ordering::SeqCst) < 60 {
            std::thread::sleep(Duration::from_millis(ms));
        }
    })
}

fn run_job(cfg: &Cfg) -> Result<(Vec<i64>, Option<Vec<E>>), String> {
    let cfg = Arc::new(cfg.clone());
    let (tx, rx) = std::sync::mpsc::channel();
    let configs: Vec<RuntimeConfig> = if cfg.hosts <= 1 {
        vec![RuntimeConfig::local(cfg.cores).unwrap()]
    } else {
        let pid = std::process::id() as u64;
        let hs: Vec<HostConfig> = (0..cfg.hosts)
            .map(|h| HostConfig {
                address: format!("127.{}.{}.{}", 1 + (pid + 101) % 250, 1 + (pid / 250 + cfg.run) % 250, 1 + h),
                base_port: 41000 + ((pid * 11 + cfg.run * 17) % 20000) as u16,
                num_cores: cfg.cores,
                ssh: Default::default(),
                perf_path: None,
            })
            .collect();
        (0..cfg.hosts)
            .map(|h| ConfigBuilder::new_remote().add_hosts(&hs).host_id(h).build().unwrap())
            .collect()
    };
    let n = configs.len();
    for config in configs {
        let cfg = cfg.clone();
        let tx = tx.clone();
        std::thread::spawn(move || {
            let r = std::panic::catch_unwind(std::panic::AssertUnwindSafe(|| {
                let env = StreamContext::new(config);
                let (st, items) = build(&env, &cfg);
                env.execute_blocking();
                (st.get(), items.and_then(|i| i.get()))
            }));
            let _ = tx.send(r.map_err(|e| {
                if let Some(s) = e.downcast_ref::<String>() {
                    s.clone()
                } else if let Some(s) = e.downcast_ref::<&str>() {
                    s.to_string()
                } else {
                    "unknown".into()
                }
            }));
        });
    }
    let mut state = None;
    let mut items = None;
    for _ in 0..n {
        match rx.recv_timeout(Duration::from_secs(20 * nvh::load_factor() as u64)) {
            Ok(Ok((s, i))) => {
                if s.is_some() {
                    state = s;
                }
                if i.is_some() {
                    items = i;
                }
            }
            Ok(Err(m)) => return Err(format!("panic:{}", classify_panic(&m))),
            Err(_) => return Err("blocked".into()),
        }
    }
    Ok((state.unwrap_or_default(), items))
}

fn parse_cfg(c: &Case) -> Cfg {
    let h = &c.header;
    Cfg {
        run: RUN.fetch_add(1, Ordering::SeqCst),
        kind: h[1].clone(),
        hosts: h[2].parse().unwrap(),
        cores: h[3].parse().unwrap(),
        max: h[4].parse().unwrap(),
        body: h[5].clone(),
        fold: h[6].clone(),
        cond: h[7].clone(),
        init: h[8].parse().unwrap(),
        delay: h[9].clone(),
        max_inner: h[10].parse().unwrap(),
        input: c.ops.iter().filter(|w| w[0] == "i" && w.len() == 2).filter_map(|w| w[1].parse().ok()).collect(),
    }
}

fn exec(c: &Case) -> Vec<String> {
    let cfg = parse_cfg(c);
    LEADERS.lock().unwrap().clear();
    SLEEPS.store(0, Ordering::SeqCst);
    set_link_observer(Some(observer(&cfg)), true);
    let res = run_job(&cfg);
    set_link_observer(None, false);
    let (state, items) = match res {
        Ok(x) => x,
        Err(e) => return vec![e],
    };
    let mut out = vec![format!("state {}", Val::ints(state))];
    if let Some(items) = items {
        let mut xs: Vec<i64> = items.iter().map(|e| e.2).collect();
        xs.sort();
        out.push(format!("items {}", Val::ints(xs)));
    }
    let nested = cfg.kind.starts_with("nest");
    let mut obs: BTreeMap<(u8, i64, i64), BTreeSet<i64>> = BTreeMap::new();
    // nested kinds: hosts on which a given OUTER state was observed in a given outer round
    let mut at: BTreeMap<(i64, i64), BTreeSet<u64>> = BTreeMap::new();
    let debug = std::env::var("LOOPS_DEBUG").is_ok();
    {
        let mut g = OBS.lock().unwrap();
        for &(run, level, ko, ki, s, h, r, b) in g.iter() {
            if run == cfg.run {
                obs.entry((level, ko, if level == 0 { 0 } else { ki })).or_default().insert(s);
                if level == 0 {
                    at.entry((ko, s)).or_default().insert(h);
                }
                if debug {
                    eprintln!("# obs run={run} level={level} round={ko}.{ki} state={s} at block {b} host {h} replica {r}");
                }
            }
        }
        g.retain(|o| o.0 > cfg.run);
    }
    if let Some(m) = SEEN.lock().unwrap().as_mut() {
        m.clear();
    }
    for ((level, ko, ki), states) in obs {
        let states: Vec<String> = states.iter().map(|s| s.to_string()).collect();
        if level == 0 {
            out.push(format!("obs o {ko} {}", states.join(" ")));
        } else {
            out.push(format!("obs i {ko}.{ki} {}", states.join(" ")));
        }
    }
    if nested {
        // one line per element processed by the inner body: what it read
        let mut rds: Vec<(i64, i64, i64, i64, i64)> = {
            let mut g = RDS.lock().unwrap();
            let v = g.iter().filter(|r| r.0 == cfg.run).map(|r| (r.1, r.2, r.3, r.4, r.5)).collect();
            g.retain(|r| r.0 > cfg.run);
            v
        };
        rds.sort();
        for (ko, ki, x, so, si) in rds {
            out.push(format!("rd {ko}.{ki} {x} {so} {si}"));
        }
        // placement metadata (echoed by the driver, not predicted): where each outer state was seen,
        // and the host of the outermost leader
        for ((ko, s), hosts) in at {
            let hosts: Vec<String> = hosts.iter().map(|h| h.to_string()).collect();
            out.push(format!("at o {ko} {s} {}", hosts.join(" ")));
        }
        if let Some((_, h)) = LEADERS.lock().unwrap().iter().next() {
            out.push(format!("at leader {h}"));
        }
    }
    out
}

fn gen(rng: &mut Rng, i: usize) -> Case {
    let kind = match rng.below(30) {
        0..=8 => "replay",
        9..=15 => "iterate",
        16..=19 => "nested",
        20..=21 => "nestri",
        22..=23 => "nestir",
        24..=25 => "nestrx",
        26..=27 => "nestrm",
        28 => "nestix",
        _ => "nestim",
    };
    let nest = kind.starts_with("nest");
    let hosts = match rng.below(if nest { 8 } else { 12 }) {
        0 | 1 | 2 => 2,
        3 => 3,
        _ => 1,
    };
    let cores = match hosts {
        3 => 1,
        2 => rng.range(1, 2),
        _ => rng.range(1, 4),
    };
    let max = rng.range(1, if nest { 4 } else { 6 });
    let body = if nest {
        *rng.pick(&["n0", "n1", "n2", "n3", "n1", "n3"])
    } else if kind == "replay" {
        *rng.pick(&["map", "shmap", "mapsh", "filt", "group", "kf2", "join"])
    } else {
        *rng.pick(&["map", "shmap", "mapsh", "filt", "group", "kf2"])
    };
    let fold = *rng.pick(&["sum", "sum", "cnt", "max", "nd"]);
    let cond = match rng.below(8) {
        0..=2 => "T".to_string(),
        3 => "F".to_string(),
        4 => format!("lt:{}", rng.range(0, 3000)),
        5 => "dec".to_string(),
        _ => format!("ltm:{}", rng.range(0, 3000)),
    };
    let init = rng.range(-2, 5);
    let delay = *rng.pick(&["none", "none", "fb", "fbo", "fbn", "data", "nones", "fbos"]);
    let max_inner = rng.range(1, 3);
    let mut c = Case::new(&[
        "loops",
        kind,
        &hosts.to_string(),
        &cores.to_string(),
        &max.to_string(),
        body,
        fold,
        &cond,
        &init.to_string(),
        delay,
        &max_inner.to_string(),
    ]);
    let n = match rng.below(8) {
        0 => 0,
        1 => 1,
        _ => rng.range(2, if nest || body == "join" { 12 } else { 30 }),
    };
    for _ in 0..n {
        c.ops(vec!["i".into(), rng.range(0, 99).to_string()]);
    }
    let _ = i;
    c
}

fn main() {
    run_main("loops", gen, exec);
}
