//! C10 (component level): the REAL `IterationLeader` (hook `renoir::verif::iteration::leader`) fed
//! through a `FakeNet`. Deltas arrive from 1–3 `IterationEnd` replicas (all replicas of a block
//! share one channel, so the order of the op lines is the arrival order); the `(continue?, state)`
//! broadcasts are read back from 1–3 loop-head replicas.
//!
//! header: `leader <nEnd> <nHead> <max_iter> <fold> <cond> <init>`
//!         fold ∈ sum | max | cnt | app | sub | last | mix      (global_fold, library mirrored in Lean)
//!         cond ∈ T | F | lt:<b> | dec | ltm:<b>                (loop_condition, may mutate)
//! ops:    `b <replica> <elem>…` one batch (elems `I:<delta>`, `FB`, `FAR`); after the last op every
//!         replica sends its `Terminate` (implicit, so that every subset of the ops is a valid case)
//! outputs, in the order observed by a caller that drains the feedback channels after every `next()`:
//!         `fb <head> <0|1> <state>`  one broadcast message received by head replica <head>
//!         `out <elem>`               element returned by `next()`
use std::sync::mpsc;
use std::time::Duration;

use nvh::*;
use renoir::operator::{Operator, StreamElement};
use renoir::verif::iteration::{leader, FeedbackRx};
use renoir::verif::{Coord, FakeNet, FakeSender};
use renoir::BatchMode;

const FOLDS: [&str; 7] = ["sum", "max", "cnt", "app", "sub", "last", "mix"];

fn global_fold(kind: &str, state: &mut Val, delta: Val) {
    match (kind, &mut *state, &delta) {
        ("app", Val::List(l), d) => l.push(d.clone()),
        ("sum", Val::Int(s), Val::Int(d)) => *s = s.wrapping_add(*d),
        ("max", Val::Int(s), Val::Int(d)) => *s = (*s).max(*d),
        ("cnt", Val::Int(s), _) => *s += 1,
        ("sub", Val::Int(s), Val::Int(d)) => *s = s.wrapping_sub(*d),
        ("last", s, d) => *s = d.clone(),
        ("mix", Val::Int(s), Val::Int(d)) => *s = s.wrapping_mul(2).wrapping_add(*d),
        _ => {}
    }
}

fn loop_cond(kind: &str, state: &mut Val) -> bool {
    let size = |s: &Val| match s {
        Val::Int(n) => *n,
        Val::List(l) => l.len() as i64,
        _ => 0,
    };
    if kind == "T" {
        true
    } else if kind == "F" {
        false
    } else if let Some(b) = kind.strip_prefix("lt:") {
        size(state) < b.parse::<i64>().unwrap()
    } else if kind == "dec" {
        match state {
            Val::Int(n) => *n -= 1,
            Val::List(l) => l.push(Val::Int(-1)),
            _ => {}
        }
        true
    } else if let Some(b) = kind.strip_prefix("ltm:") {
        match state {
            Val::Int(n) => *n += 1,
            Val::List(l) => l.push(Val::Int(-2)),
            _ => {}
        }
        size(state) < b.parse::<i64>().unwrap()
    } else {
        panic!("bad cond {kind}")
    }
}

fn gen(rng: &mut Rng, _i: usize) -> Case {
    let n_end = rng.range(1, 3) as usize;
    let n_head = rng.range(1, 3) as usize;
    let max = match rng.below(6) {
        0 => 0,
        1 => 1,
        _ => rng.range(2, 6),
    };
    let fold = *rng.pick(&FOLDS);
    let init = if fold == "app" { "[]".to_string() } else { rng.range(-3, 5).to_string() };
    let cond = match rng.below(7) {
        0 | 1 => "T".to_string(),
        2 => "F".to_string(),
        3 => format!("lt:{}", rng.range(0, 12)),
        4 => "dec".to_string(),
        _ => format!("ltm:{}", rng.range(0, 12)),
    };
    let mut c = Case::new(&["leader", &n_end.to_string(), &n_head.to_string(), &max.to_string(), fold, &cond, &init]);
    // rounds worth of deltas; at most 12 rounds so that the feedback channels (capacity 16) never fill
    let rounds = rng.range(0, 8) as usize;
    let mut val = 0i64;
    let complete = !rng.chance(1, 6);
    let total = if complete { rounds * n_end } else { rounds * n_end + rng.below(n_end as u64) as usize };
    let mut left = total;
    while left > 0 {
        let r = rng.below(n_end as u64);
        let k = (rng.range(1, 3) as usize).min(left);
        let mut w = vec!["b".to_string(), r.to_string()];
        for _ in 0..k {
            if rng.chance(1, 8) {
                w.push(if rng.chance(1, 2) { "FB".into() } else { "FAR".into() });
            }
            val += 1;
            let d = if rng.chance(1, 5) { rng.range(-4, 4) } else { val };
            w.push(format!("I:{d}"));
        }
        if rng.chance(1, 10) {
            w.push("FAR".into());
        }
        left -= k;
        c.ops(w);
    }
    c
}

fn exec_inner(c: &Case) -> Vec<String> {
    let n_end: u64 = c.header[1].parse().unwrap();
    let n_head: u64 = c.header[2].parse().unwrap();
    let max: usize = c.header[3].parse().unwrap();
    let fold = c.header[4].clone();
    let cond = c.header[5].clone();
    let init = Val::parse(&c.header[6]).expect("bad init");
    let (fb_block, head_block) = (3u64, 1u64);
    let me = Coord::new(0, 0, 0);
    let mut net = FakeNet::new(me);
    let senders: Vec<FakeSender<Val>> = (0..n_end).map(|r| net.add_prev::<Val>(Coord::new(fb_block, 0, r))).collect();
    let heads: Vec<FeedbackRx<Val>> = (0..n_head).map(|r| FeedbackRx::<Val>::attach(&mut net, Coord::new(head_block, 0, r))).collect();
    let mut op = leader::<Val, Val, _, _>(
        init,
        max,
        move |s: &mut Val, d: Val| global_fold(&fold, s, d),
        move |s: &mut Val| loop_cond(&cond, s),
        fb_block,
    );
    net.with_metadata(vec![me], 0, BatchMode::adaptive(1000, Duration::from_millis(1)), |m| op.setup(m));

    // the producer side runs on its own thread (the shared channel holds 16 batches)
    let batches: Vec<(usize, Vec<StreamElement<Val>>)> = c
        .ops
        .iter()
        .filter(|w| w[0] == "b" && w.len() >= 2)
        .filter_map(|w| {
            let r: usize = w[1].parse().ok()?;
            let b: Vec<StreamElement<Val>> = w[2..].iter().filter_map(|s| parse_elem(s)).collect();
            if r < n_end as usize && !b.is_empty() {
                Some((r, b))
            } else {
                None
            }
        })
        .collect();
    let producer = std::thread::spawn(move || {
        for (r, b) in batches {
            senders[r].send(b);
        }
        for s in &senders {
            s.send(vec![StreamElement::Terminate]);
        }
        senders // keep the channel alive until joined
    });

    let mut out = vec![];
    loop {
        let e = op.next();
        for (h, rx) in heads.iter().enumerate() {
            while let Some(msgs) = rx.try_recv() {
                for (cont, s) in msgs {
                    out.push(format!("fb {h} {} {s}", cont as u8));
                }
            }
        }
        out.push(format!("out {}", fmt_elem(&e)));
        if matches!(e, StreamElement::Terminate) {
            break;
        }
    }
    let _ = producer.join();
    out
}

fn exec(c: &Case) -> Vec<String> {
    let (tx, rx) = mpsc::channel();
    let c2 = c.clone();
    std::thread::spawn(move || {
        let r = guarded(exec_inner, &c2);
        let _ = tx.send(r);
    });
    match rx.recv_timeout(Duration::from_secs(10 * nvh::load_factor() as u64)) {
        Ok(v) => v,
        Err(_) => vec!["blocked".into()],
    }
}

fn main() {
    run_main("leader", gen, exec);
}
