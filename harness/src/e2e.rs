//! Whole-engine end-to-end harness (C01 and reusable by other properties).
//!
//! * a pipeline AST over the universal value type [`Val`] with a lossless, line-oriented textual
//!   encoding (`n <id> <kind> <@inputs…> <params…>`, one node per line, a node whose input is not
//!   defined on an EARLIER line is dropped together with its descendants — the same closure rule
//!   is implemented by `Noir.Pipe.seqEval` on the Lean side);
//! * a finite library of named user functions mirrored in `lean/NoirVerif/Model/Pipe.lean`;
//! * a random job generator that avoids the known defects F4/F8 (forward links between blocks of
//!   different replica counts other than `-> 1`);
//! * a builder that attaches a job to a real `StreamContext` (type erasure through [`BoxOp`]);
//! * a runner for local and in-process multi-host configurations with a watchdog.
//!
//! Public API (see the bottom of the file for the runner):
//!   `Job::{to_ops, from_ops}`, `gen_job`, `build_job`, `Config`, `Batch`, `run_job`, `Outcome`,
//!   `outcome_lines`, `run_main_par`, `erase`, `erase_keyed`, `BoxOp`.
#![allow(clippy::type_complexity)]

use std::collections::{BTreeMap, HashMap};
use std::fmt::{self, Display};
use std::sync::atomic::{AtomicU32, Ordering};
use std::sync::{mpsc, Arc, Mutex};
use std::time::Duration;

use renoir::config::{ConfigBuilder, HostConfig, RuntimeConfig};
use renoir::operator::sink::StreamOutput;
use renoir::operator::window::CountWindow;
use renoir::operator::{Operator, StreamElement};
use renoir::structure::BlockStructure;
use renoir::{
    group_by_hash, BatchMode, ExecutionMetadata, IterationStateHandle, KeyedStream, Replication,
    Stream, StreamContext,
};

use crate::{classify_panic, parse_args, read_cases, Case, Rng, Val};

// ------------------------------------------------------------------------------------------------
// 1. function library (mirrored in Model/Pipe.lean: `proj`, `MapFn.eval`, …)

/// modulus that keeps products bounded (no i64 overflow on either side)
pub const M: i64 = 10007;

/// Euclidean remainder with a divisor forced to be >= 1 (Lean: `Int.emod`)
pub fn emod(a: i64, k: i64) -> i64 {
    a.rem_euclid(k.max(1))
}

/// integer projection of an arbitrary value
pub fn proj(v: &Val) -> i64 {
    match v {
        Val::Int(n) => *n,
        Val::Tup(l) | Val::List(l) => l.iter().map(proj).sum(),
        Val::Some(v) | Val::Left(v) | Val::Right(v) => proj(v),
        Val::None | Val::LeftEnd | Val::RightEnd => 0,
    }
}

macro_rules! named_enum {
    ($name:ident { $($var:ident => $s:literal),* $(,)? }) => {
        #[derive(Clone, Copy, Debug, PartialEq, Eq)]
        pub enum $name { $($var),* }
        impl $name {
            pub const ALL: &'static [$name] = &[$($name::$var),*];
            pub fn name(self) -> &'static str { match self { $($name::$var => $s),* } }
            pub fn parse(s: &str) -> Option<$name> { match s { $($s => Some($name::$var),)* _ => None } }
        }
        impl Display for $name {
            fn fmt(&self, f: &mut fmt::Formatter<'_>) -> fmt::Result { write!(f, "{}", self.name()) }
        }
    };
}

named_enum!(MapFn { Add => "add", Mul => "mul", Mod => "mod", Neg => "neg", Pair => "pair", Swap => "swap",
    Fst => "fst", Snd => "snd", Opt => "opt", Wrap => "wrap", Id => "id" });
named_enum!(PredFn { Even => "even", Odd => "odd", Lt => "lt", Ge => "ge", Modz => "modz", Modnz => "modnz",
    True => "true", IsInt => "isint" });
named_enum!(FlatFn { Dup => "dup", Rangex => "rangex", Unlist => "unlist", Optflat => "optflat", Nil => "nil" });
named_enum!(KeyFn { Kmod => "kmod", Kself => "kself", Kfst => "kfst", Kconst => "kconst", Kpair => "kpair" });
named_enum!(Agg { Sum => "sum", Cnt => "cnt", Summod => "summod", Sumsq => "sumsq", Min => "min", Max => "max" });
named_enum!(JVar { Inner => "inner", Left => "left", Outer => "outer" });
named_enum!(Ship { Hash => "hash", Bcast => "bcast" });
named_enum!(Local { Lh => "lh", Sm => "sm" });

fn fst_of(v: &Val) -> Val {
    match v {
        Val::Tup(l) if !l.is_empty() => l[0].clone(),
        _ => v.clone(),
    }
}

impl MapFn {
    pub fn eval(self, k: i64, v: &Val) -> Val {
        let p = proj(v);
        match self {
            MapFn::Add => Val::Int(p + k),
            MapFn::Mul => Val::Int(emod(p * k, M)),
            MapFn::Mod => Val::Int(emod(p, k)),
            MapFn::Neg => Val::Int(-p),
            MapFn::Pair => Val::Tup(vec![v.clone(), Val::Int(emod(p, k))]),
            MapFn::Swap => match v {
                Val::Tup(l) if l.len() == 2 => Val::Tup(vec![l[1].clone(), l[0].clone()]),
                _ => v.clone(),
            },
            MapFn::Fst => fst_of(v),
            MapFn::Snd => match v {
                Val::Tup(l) if l.len() >= 2 => l[1].clone(),
                _ => v.clone(),
            },
            MapFn::Opt => {
                if emod(p, k) == 0 {
                    Val::Some(Box::new(v.clone()))
                } else {
                    Val::None
                }
            }
            MapFn::Wrap => Val::List(vec![v.clone()]),
            MapFn::Id => v.clone(),
        }
    }
}

impl PredFn {
    pub fn eval(self, k: i64, v: &Val) -> bool {
        let p = proj(v);
        match self {
            PredFn::Even => emod(p, 2) == 0,
            PredFn::Odd => emod(p, 2) == 1,
            PredFn::Lt => p < k,
            PredFn::Ge => p >= k,
            PredFn::Modz => emod(p, k) == 0,
            PredFn::Modnz => emod(p, k) != 0,
            PredFn::True => true,
            PredFn::IsInt => matches!(v, Val::Int(_)),
        }
    }
}

impl FlatFn {
    pub fn eval(self, k: i64, v: &Val) -> Vec<Val> {
        match self {
            FlatFn::Dup => vec![v.clone(), v.clone()],
            FlatFn::Rangex => (0..emod(proj(v), k)).map(Val::Int).collect(),
            FlatFn::Unlist => match v {
                Val::List(l) | Val::Tup(l) => l.clone(),
                _ => vec![v.clone()],
            },
            FlatFn::Optflat => match v {
                Val::Some(x) => vec![(**x).clone()],
                Val::None => vec![],
                _ => vec![v.clone()],
            },
            FlatFn::Nil => vec![],
        }
    }
}

impl KeyFn {
    pub fn eval(self, k: i64, v: &Val) -> Val {
        let p = proj(v);
        match self {
            KeyFn::Kmod => Val::Int(emod(p, k)),
            KeyFn::Kself => v.clone(),
            KeyFn::Kfst => fst_of(v),
            KeyFn::Kconst => Val::Int(0),
            KeyFn::Kpair => Val::Tup(vec![Val::Int(emod(p, k)), Val::Int(emod(p, 2))]),
        }
    }
}

impl Agg {
    /// local step: accumulator (initially 0) and the integer projection of one element
    pub fn loc(self, acc: i64, x: i64) -> i64 {
        match self {
            Agg::Sum => acc + x,
            Agg::Cnt => acc + 1,
            Agg::Summod => emod(acc + x, M),
            Agg::Sumsq => acc + emod(x * x, M),
            Agg::Min => acc.min(x),
            Agg::Max => acc.max(x),
        }
    }
    /// global step: combine two accumulators (also the binary operation of the reductions)
    pub fn glob(self, a: i64, b: i64) -> i64 {
        match self {
            Agg::Sum | Agg::Cnt | Agg::Sumsq => a + b,
            Agg::Summod => emod(a + b, M),
            Agg::Min => a.min(b),
            Agg::Max => a.max(b),
        }
    }
}

// ------------------------------------------------------------------------------------------------
// 2. AST

#[derive(Clone, Copy, Debug, PartialEq, Eq, Hash, PartialOrd, Ord)]
pub struct Ref {
    pub id: usize,
    pub port: usize,
}

impl Display for Ref {
    fn fmt(&self, f: &mut fmt::Formatter<'_>) -> fmt::Result {
        if self.port == 0 {
            write!(f, "@{}", self.id)
        } else {
            write!(f, "@{}.{}", self.id, self.port)
        }
    }
}

impl Ref {
    pub fn new(id: usize) -> Ref {
        Ref { id, port: 0 }
    }
    pub fn parse(s: &str) -> Option<Ref> {
        let s = s.strip_prefix('@')?;
        match s.split_once('.') {
            Some((a, b)) => Some(Ref { id: a.parse().ok()?, port: b.parse().ok()? }),
            None => Some(Ref { id: s.parse().ok()?, port: 0 }),
        }
    }
}

#[derive(Clone, Copy, Debug, PartialEq, Eq)]
pub enum Rep {
    U,
    One,
    L(u64),
    /// one replica per host
    Host,
}

impl Display for Rep {
    fn fmt(&self, f: &mut fmt::Formatter<'_>) -> fmt::Result {
        match self {
            Rep::U => write!(f, "u"),
            Rep::One => write!(f, "one"),
            Rep::L(k) => write!(f, "{k}"),
            Rep::Host => write!(f, "host"),
        }
    }
}

impl Rep {
    pub fn parse(s: &str) -> Option<Rep> {
        match s {
            "u" => Some(Rep::U),
            "one" => Some(Rep::One),
            "host" => Some(Rep::Host),
            _ => s.parse().ok().filter(|k| *k > 0).map(Rep::L),
        }
    }
    pub fn to_replication(self) -> Replication {
        match self {
            Rep::U => Replication::Unlimited,
            Rep::One => Replication::One,
            Rep::L(k) => Replication::new_limited(k),
            Rep::Host => Replication::new_host(),
        }
    }
}

/// one stage of a (linear, type preserving: Val -> Val) loop body
#[derive(Clone, Debug, PartialEq)]
pub enum BStage {
    Map(MapFn, i64),
    Filter(PredFn, i64),
    FlatMap(FlatFn, i64),
    Shuffle,
    /// `x -> Int(proj x + state mod k)`: reads the loop state
    AddSt(i64),
    /// `group_by_sum(key, proj).drop_key()`
    GbSum(KeyFn, i64),
    /// `map(Int proj).reduce(agg.glob)`
    Reduce(Agg),
    Replay(Box<LoopSpec>),
    /// `group_by(key).window(CountWindow::sliding(n, s)).fold(count).unkey()`: depends only on the
    /// per-key element counts, hence deployment independent even after a parallel shuffle
    GbWin(KeyFn, i64, usize, usize),
    /// `group_by_fold(key, agg).unkey()`
    GbFold(KeyFn, i64, Agg),
    /// inner hash join with the loop's side input (a stream from outside the loop, replayed every
    /// round): `join(side, k1, k2).drop_key()` -> `(l, r)`
    JoinSide(KeyFn, i64, KeyFn, i64),
    /// `merge(side)`
    MergeSide,
    /// nested `iterate`, the enclosing body continues with its STATE stream (the items are drained)
    Iterate(Box<LoopSpec>),
    /// nested `iterate`, the enclosing body continues with its ITEMS stream (the elements of the last
    /// inner round, per outer round; the state is drained) — needs /repo >= 9fb958f (finding F16)
    IterItems(Box<LoopSpec>),
    /// nested `iterate`, items merged with the in-loop state stream
    IterBoth(Box<LoopSpec>),
}

#[derive(Clone, Debug, PartialEq)]
pub struct LoopSpec {
    pub iters: usize,
    pub init: i64,
    pub agg: Agg,
    /// loop condition evaluated on `Int(state)`
    pub cond: (PredFn, i64),
    pub body: Vec<BStage>,
}

#[derive(Clone, Debug, PartialEq)]
pub enum Kind {
    Iter(Vec<Val>),
    Par(i64, i64),
    ParU(u64, u64),
    Map(Ref, MapFn, i64),
    Filter(Ref, PredFn, i64),
    FlatMap(Ref, FlatFn, i64),
    Shuffle(Ref),
    Repl(Ref, Rep),
    Repart(Ref, Rep, KeyFn, i64),
    Bcast(Ref, Agg),
    GroupBy(Ref, KeyFn, i64),
    KeyBy(Ref, KeyFn, i64),
    KMap(Ref, MapFn, i64),
    KFilter(Ref, PredFn, i64),
    KFold(Ref, Agg),
    KReduce(Ref, Agg),
    Unkey(Ref),
    DropKey(Ref),
    Fold(Ref, Agg),
    FoldA(Ref, Agg),
    Reduce(Ref, Agg),
    ReduceA(Ref, Agg),
    GbFold(Ref, KeyFn, i64, Agg),
    GbReduce(Ref, KeyFn, i64, Agg),
    GbSum(Ref, KeyFn, i64),
    GbCount(Ref, KeyFn, i64),
    KWin(Ref, usize, usize, Agg),
    Merge(Ref, Ref),
    Zip(Ref, Ref),
    Join(Ref, Ref, JVar, Ship, Local, KeyFn, i64, KeyFn, i64),
    KJoin(Ref, Ref, JVar),
    /// `KeyedStream::merge` (forward connection of two co-partitioned keyed streams)
    KMerge(Ref, Ref),
    Route(Ref, Vec<(PredFn, i64)>),
    /// input, optional side input (used by `joinside` / `mergeside` body stages), loop
    Replay(Ref, Option<Ref>, LoopSpec),
    Iterate(Ref, Option<Ref>, LoopSpec),
    Sink(Ref),
}

#[derive(Clone, Debug, PartialEq)]
pub struct Node {
    pub id: usize,
    pub kind: Kind,
}

#[derive(Clone, Debug, Default, PartialEq)]
pub struct Job {
    pub nodes: Vec<Node>,
}

impl Kind {
    pub fn inputs(&self) -> Vec<Ref> {
        use Kind::*;
        match self {
            Iter(_) | Par(..) | ParU(..) => vec![],
            Map(a, ..) | Filter(a, ..) | FlatMap(a, ..) | Shuffle(a) | Repl(a, _) | Repart(a, ..)
            | Bcast(a, _) | GroupBy(a, ..) | KeyBy(a, ..) | KMap(a, ..) | KFilter(a, ..) | KFold(a, _)
            | KReduce(a, _) | Unkey(a) | DropKey(a) | Fold(a, _) | FoldA(a, _) | Reduce(a, _)
            | ReduceA(a, _) | GbFold(a, ..) | GbReduce(a, ..) | GbSum(a, ..) | GbCount(a, ..)
            | KWin(a, ..) | Route(a, _) | Sink(a) => vec![*a],
            Replay(a, sd, _) | Iterate(a, sd, _) => std::iter::once(*a).chain(sd.iter().copied()).collect(),
            Merge(a, b) | Zip(a, b) | Join(a, b, ..) | KJoin(a, b, _) | KMerge(a, b) => vec![*a, *b],
        }
    }
    /// number of output ports
    pub fn ports(&self) -> usize {
        match self {
            Kind::Route(_, ps) => ps.len(),
            Kind::Iterate(..) => 2,
            Kind::Sink(_) => 0,
            _ => 1,
        }
    }
    /// is the output a keyed stream?
    pub fn keyed_out(&self) -> bool {
        use Kind::*;
        match self {
            GroupBy(..) | KeyBy(..) | KMap(..) | KFilter(..) | KFold(..) | KReduce(..) | GbFold(..)
            | GbReduce(..) | GbSum(..) | GbCount(..) | KWin(..) | KJoin(..) | KMerge(..) => true,
            Join(_, _, _, ship, ..) => *ship == Ship::Hash,
            _ => false,
        }
    }
}

fn loop_words(l: &LoopSpec, w: &mut Vec<String>) {
    w.push(l.iters.to_string());
    w.push(l.init.to_string());
    w.push(l.agg.to_string());
    w.push(l.cond.0.to_string());
    w.push(l.cond.1.to_string());
    w.push("body".into());
    w.push(l.body.len().to_string());
    for s in &l.body {
        match s {
            BStage::Map(f, k) => w.extend(["map".to_string(), f.to_string(), k.to_string()]),
            BStage::Filter(f, k) => w.extend(["filter".to_string(), f.to_string(), k.to_string()]),
            BStage::FlatMap(f, k) => w.extend(["fmap".to_string(), f.to_string(), k.to_string()]),
            BStage::Shuffle => w.push("shuffle".into()),
            BStage::AddSt(k) => w.extend(["addst".to_string(), k.to_string()]),
            BStage::GbSum(f, k) => w.extend(["gbsum".to_string(), f.to_string(), k.to_string()]),
            BStage::Reduce(a) => w.extend(["reduce".to_string(), a.to_string()]),
            BStage::Replay(l2) => {
                w.push("replay".into());
                loop_words(l2, w);
            }
            BStage::Iterate(l2) => {
                w.push("iterate".into());
                loop_words(l2, w);
            }
            BStage::IterItems(l2) => {
                w.push("iteritems".into());
                loop_words(l2, w);
            }
            BStage::IterBoth(l2) => {
                w.push("iterboth".into());
                loop_words(l2, w);
            }
            BStage::GbWin(f, k, n, sl) => w.extend(["gbwin".to_string(), f.to_string(), k.to_string(), n.to_string(), sl.to_string()]),
            BStage::GbFold(f, k, g) => w.extend(["gbfold".to_string(), f.to_string(), k.to_string(), g.to_string()]),
            BStage::JoinSide(f1, k1, f2, k2) => w.extend(["joinside".to_string(), f1.to_string(), k1.to_string(), f2.to_string(), k2.to_string()]),
            BStage::MergeSide => w.push("mergeside".into()),
        }
    }
}

struct Toks<'a> {
    w: &'a [String],
    i: usize,
}

impl<'a> Toks<'a> {
    fn next(&mut self) -> Option<&'a str> {
        let r = self.w.get(self.i)?;
        self.i += 1;
        Some(r.as_str())
    }
    fn int(&mut self) -> Option<i64> {
        self.next()?.parse().ok()
    }
    fn usize(&mut self) -> Option<usize> {
        self.next()?.parse().ok()
    }
    fn rf(&mut self) -> Option<Ref> {
        Ref::parse(self.next()?)
    }
    /// an optional `@ref` token
    fn opt_rf(&mut self) -> Option<Ref> {
        let r = Ref::parse(self.w.get(self.i)?)?;
        self.i += 1;
        Some(r)
    }
    fn done(&self) -> bool {
        self.i == self.w.len()
    }
}

fn parse_loop(t: &mut Toks, depth: usize, has_side: bool) -> Option<LoopSpec> {
    if depth > 4 {
        return None;
    }
    let iters = t.usize()?;
    let init = t.int()?;
    let agg = Agg::parse(t.next()?)?;
    let cond = (PredFn::parse(t.next()?)?, t.int()?);
    if t.next()? != "body" {
        return None;
    }
    let n = t.usize()?;
    let mut body = vec![];
    for _ in 0..n {
        let s = match t.next()? {
            "map" => BStage::Map(MapFn::parse(t.next()?)?, t.int()?),
            "filter" => BStage::Filter(PredFn::parse(t.next()?)?, t.int()?),
            "fmap" => BStage::FlatMap(FlatFn::parse(t.next()?)?, t.int()?),
            "shuffle" => BStage::Shuffle,
            "addst" => BStage::AddSt(t.int()?),
            "gbsum" => BStage::GbSum(KeyFn::parse(t.next()?)?, t.int()?),
            "reduce" => BStage::Reduce(Agg::parse(t.next()?)?),
            "replay" => BStage::Replay(Box::new(parse_loop(t, depth + 1, has_side)?)),
            "iterate" => BStage::Iterate(Box::new(parse_loop(t, depth + 1, has_side)?)),
            "iteritems" => BStage::IterItems(Box::new(parse_loop(t, depth + 1, has_side)?)),
            "iterboth" => BStage::IterBoth(Box::new(parse_loop(t, depth + 1, has_side)?)),
            "gbwin" => {
                let (f, k, n, sl) = (KeyFn::parse(t.next()?)?, t.int()?, t.usize()?, t.usize()?);
                if n == 0 || sl == 0 {
                    return None;
                }
                BStage::GbWin(f, k, n, sl)
            }
            "gbfold" => BStage::GbFold(KeyFn::parse(t.next()?)?, t.int()?, Agg::parse(t.next()?)?),
            "joinside" if has_side => {
                BStage::JoinSide(KeyFn::parse(t.next()?)?, t.int()?, KeyFn::parse(t.next()?)?, t.int()?)
            }
            "mergeside" if has_side => BStage::MergeSide,
            _ => return None,
        };
        body.push(s);
    }
    Some(LoopSpec { iters, init, agg, cond, body })
}

impl Node {
    pub fn to_words(&self) -> Vec<String> {
        use Kind::*;
        let mut w: Vec<String> = vec!["n".into(), self.id.to_string()];
        macro_rules! p { ($($x:expr),*) => { { $( w.push($x.to_string()); )* } } }
        match &self.kind {
            Iter(l) => p!("iter", Val::List(l.clone())),
            Par(a, b) => p!("par", a, b),
            ParU(a, b) => p!("paru", a, b),
            Map(a, f, k) => p!("map", a, f, k),
            Filter(a, f, k) => p!("filter", a, f, k),
            FlatMap(a, f, k) => p!("fmap", a, f, k),
            Shuffle(a) => p!("shuffle", a),
            Repl(a, r) => p!("repl", a, r),
            Repart(a, r, f, k) => p!("repart", a, r, f, k),
            Bcast(a, g) => p!("bcast", a, g),
            GroupBy(a, f, k) => p!("groupby", a, f, k),
            KeyBy(a, f, k) => p!("keyby", a, f, k),
            KMap(a, f, k) => p!("kmap", a, f, k),
            KFilter(a, f, k) => p!("kfilter", a, f, k),
            KFold(a, g) => p!("kfold", a, g),
            KReduce(a, g) => p!("kreduce", a, g),
            Unkey(a) => p!("unkey", a),
            DropKey(a) => p!("dropkey", a),
            Fold(a, g) => p!("fold", a, g),
            FoldA(a, g) => p!("folda", a, g),
            Reduce(a, g) => p!("reduce", a, g),
            ReduceA(a, g) => p!("reducea", a, g),
            GbFold(a, f, k, g) => p!("gbfold", a, f, k, g),
            GbReduce(a, f, k, g) => p!("gbreduce", a, f, k, g),
            GbSum(a, f, k) => p!("gbsum", a, f, k),
            GbCount(a, f, k) => p!("gbcount", a, f, k),
            KWin(a, n, s, g) => p!("kwin", a, n, s, g),
            Merge(a, b) => p!("merge", a, b),
            Zip(a, b) => p!("zip", a, b),
            Join(a, b, v, s, l, f1, k1, f2, k2) => p!("join", a, b, v, s, l, f1, k1, f2, k2),
            KJoin(a, b, v) => p!("kjoin", a, b, v),
            KMerge(a, b) => p!("kmerge", a, b),
            Route(a, ps) => {
                p!("route", a);
                for (f, k) in ps {
                    w.push(format!("{f}:{k}"));
                }
            }
            Replay(a, sd, l) => {
                p!("replay", a);
                if let Some(b) = sd {
                    p!(b);
                }
                loop_words(l, &mut w);
            }
            Iterate(a, sd, l) => {
                p!("iterate", a);
                if let Some(b) = sd {
                    p!(b);
                }
                loop_words(l, &mut w);
            }
            Sink(a) => p!("sink", a),
        }
        w
    }

    pub fn parse(words: &[String]) -> Option<Node> {
        use Kind::*;
        let mut t = Toks { w: words, i: 0 };
        if t.next()? != "n" {
            return None;
        }
        let id = t.usize()?;
        let kind = match t.next()? {
            "iter" => match Val::parse(t.next()?)? {
                Val::List(l) => Iter(l),
                _ => return None,
            },
            "par" => Par(t.int()?, t.int()?),
            "paru" => ParU(t.next()?.parse().ok()?, t.next()?.parse().ok()?),
            "map" => Map(t.rf()?, MapFn::parse(t.next()?)?, t.int()?),
            "filter" => Filter(t.rf()?, PredFn::parse(t.next()?)?, t.int()?),
            "fmap" => FlatMap(t.rf()?, FlatFn::parse(t.next()?)?, t.int()?),
            "shuffle" => Shuffle(t.rf()?),
            "repl" => Repl(t.rf()?, Rep::parse(t.next()?)?),
            "repart" => Repart(t.rf()?, Rep::parse(t.next()?)?, KeyFn::parse(t.next()?)?, t.int()?),
            "bcast" => Bcast(t.rf()?, Agg::parse(t.next()?)?),
            "groupby" => GroupBy(t.rf()?, KeyFn::parse(t.next()?)?, t.int()?),
            "keyby" => KeyBy(t.rf()?, KeyFn::parse(t.next()?)?, t.int()?),
            "kmap" => KMap(t.rf()?, MapFn::parse(t.next()?)?, t.int()?),
            "kfilter" => KFilter(t.rf()?, PredFn::parse(t.next()?)?, t.int()?),
            "kfold" => KFold(t.rf()?, Agg::parse(t.next()?)?),
            "kreduce" => KReduce(t.rf()?, Agg::parse(t.next()?)?),
            "unkey" => Unkey(t.rf()?),
            "dropkey" => DropKey(t.rf()?),
            "fold" => Fold(t.rf()?, Agg::parse(t.next()?)?),
            "folda" => FoldA(t.rf()?, Agg::parse(t.next()?)?),
            "reduce" => Reduce(t.rf()?, Agg::parse(t.next()?)?),
            "reducea" => ReduceA(t.rf()?, Agg::parse(t.next()?)?),
            "gbfold" => GbFold(t.rf()?, KeyFn::parse(t.next()?)?, t.int()?, Agg::parse(t.next()?)?),
            "gbreduce" => GbReduce(t.rf()?, KeyFn::parse(t.next()?)?, t.int()?, Agg::parse(t.next()?)?),
            "gbsum" => GbSum(t.rf()?, KeyFn::parse(t.next()?)?, t.int()?),
            "gbcount" => GbCount(t.rf()?, KeyFn::parse(t.next()?)?, t.int()?),
            "kwin" => {
                let (a, n, s) = (t.rf()?, t.usize()?, t.usize()?);
                if n == 0 || s == 0 {
                    return None;
                }
                KWin(a, n, s, Agg::parse(t.next()?)?)
            }
            "merge" => Merge(t.rf()?, t.rf()?),
            "zip" => Zip(t.rf()?, t.rf()?),
            "join" => Join(
                t.rf()?,
                t.rf()?,
                JVar::parse(t.next()?)?,
                Ship::parse(t.next()?)?,
                Local::parse(t.next()?)?,
                KeyFn::parse(t.next()?)?,
                t.int()?,
                KeyFn::parse(t.next()?)?,
                t.int()?,
            ),
            "kjoin" => KJoin(t.rf()?, t.rf()?, JVar::parse(t.next()?)?),
            "kmerge" => KMerge(t.rf()?, t.rf()?),
            "route" => {
                let a = t.rf()?;
                let mut ps = vec![];
                while let Some(x) = t.next() {
                    let (f, k) = x.split_once(':')?;
                    ps.push((PredFn::parse(f)?, k.parse().ok()?));
                }
                Route(a, ps)
            }
            "replay" => {
                let a = t.rf()?;
                let sd = t.opt_rf();
                Replay(a, sd, parse_loop(&mut t, 0, sd.is_some())?)
            }
            "iterate" => {
                let a = t.rf()?;
                let sd = t.opt_rf();
                Iterate(a, sd, parse_loop(&mut t, 0, sd.is_some())?)
            }
            "sink" => Sink(t.rf()?),
            _ => return None,
        };
        if !t.done() {
            return None;
        }
        Some(Node { id, kind })
    }
}

impl Job {
    pub fn to_ops(&self) -> Vec<Vec<String>> {
        self.nodes.iter().map(|n| n.to_words()).collect()
    }

    /// Parse the `n …` lines (other lines are ignored) and apply the closure rule: a node is kept
    /// iff it parses, its id is new and every input refers to an existing port of a node kept on
    /// an EARLIER line with the right stream kind (keyed / plain).
    pub fn from_ops(ops: &[Vec<String>]) -> Job {
        let mut nodes: Vec<Node> = vec![];
        let mut sig: HashMap<usize, (usize, bool)> = HashMap::new(); // id -> (ports, keyed)
        for w in ops {
            if w.first().map(|s| s.as_str()) != Some("n") {
                continue;
            }
            let Some(n) = Node::parse(w) else { continue };
            if sig.contains_key(&n.id) {
                continue;
            }
            let ins = n.kind.inputs();
            let want = n.kind.keyed_inputs();
            let ok = ins.iter().zip(want.iter()).all(|(r, wk)| match sig.get(&r.id) {
                Some((ports, keyed)) => r.port < *ports && wk.map_or(true, |wk| wk == *keyed),
                None => false,
            });
            if !ok {
                continue;
            }
            sig.insert(n.id, (n.kind.ports(), n.kind.keyed_out()));
            nodes.push(n);
        }
        Job { nodes }
    }

    pub fn sinks(&self) -> Vec<usize> {
        self.nodes.iter().filter(|n| matches!(n.kind, Kind::Sink(_))).map(|n| n.id).collect()
    }
}

impl Kind {
    /// required kind of each input: Some(true) keyed, Some(false) plain, None either
    pub fn keyed_inputs(&self) -> Vec<Option<bool>> {
        use Kind::*;
        match self {
            Iter(_) | Par(..) | ParU(..) => vec![],
            KMap(..) | KFilter(..) | KFold(..) | KReduce(..) | Unkey(_) | DropKey(_) | KWin(..) => vec![Some(true)],
            KJoin(..) | KMerge(..) => vec![Some(true), Some(true)],
            Sink(_) => vec![None],
            Merge(..) | Zip(..) | Join(..) => vec![Some(false), Some(false)],
            Replay(_, Some(_), _) | Iterate(_, Some(_), _) => vec![Some(false), Some(false)],
            _ => vec![Some(false)],
        }
    }
}

// ------------------------------------------------------------------------------------------------
// 3. type erasure

/// object-safe mirror of `Operator`
pub trait DynOp<T>: Send {
    fn dyn_setup(&mut self, m: &mut ExecutionMetadata);
    fn dyn_next(&mut self) -> StreamElement<T>;
    fn dyn_structure(&self) -> BlockStructure;
    fn dyn_clone(&self) -> Box<dyn DynOp<T>>;
    fn dyn_fmt(&self, f: &mut fmt::Formatter<'_>) -> fmt::Result;
}

impl<T: Send, Op: Operator<Out = T> + 'static> DynOp<T> for Op {
    fn dyn_setup(&mut self, m: &mut ExecutionMetadata) {
        self.setup(m)
    }
    fn dyn_next(&mut self) -> StreamElement<T> {
        self.next()
    }
    fn dyn_structure(&self) -> BlockStructure {
        self.structure()
    }
    fn dyn_clone(&self) -> Box<dyn DynOp<T>> {
        Box::new(self.clone())
    }
    fn dyn_fmt(&self, f: &mut fmt::Formatter<'_>) -> fmt::Result {
        Display::fmt(self, f)
    }
}

/// An operator chain behind a `Box<dyn …>`: lets a pipeline be attached stage by stage at run time.
pub struct BoxOp<T>(Box<dyn DynOp<T>>);

impl<T> Clone for BoxOp<T> {
    fn clone(&self) -> Self {
        BoxOp(self.0.dyn_clone())
    }
}

impl<T> Display for BoxOp<T> {
    fn fmt(&self, f: &mut fmt::Formatter<'_>) -> fmt::Result {
        self.0.dyn_fmt(f)
    }
}

impl<T: Send + 'static> Operator for BoxOp<T> {
    type Out = T;
    fn setup(&mut self, m: &mut ExecutionMetadata) {
        self.0.dyn_setup(m)
    }
    fn next(&mut self) -> StreamElement<T> {
        self.0.dyn_next()
    }
    fn structure(&self) -> BlockStructure {
        self.0.dyn_structure()
    }
}

pub fn erase<T: Send + 'static, Op: Operator<Out = T> + 'static>(s: Stream<Op>) -> Stream<BoxOp<T>> {
    s.add_operator(|op| BoxOp(Box::new(op)))
}

pub type P = Stream<BoxOp<Val>>;
pub type K = KeyedStream<BoxOp<(Val, Val)>>;

pub fn erase_keyed<Op: Operator<Out = (Val, Val)> + 'static>(ks: KeyedStream<Op>) -> K {
    KeyedStream(erase(ks.0))
}

pub enum SVal {
    P(P),
    K(K),
}

// ------------------------------------------------------------------------------------------------
// 4. builder

/// predicates usable in `route` (the API takes plain function pointers)
pub const ROUTE_PREDS: &[(PredFn, i64)] = &[
    (PredFn::Even, 0),
    (PredFn::Odd, 0),
    (PredFn::Modz, 3),
    (PredFn::Lt, 10),
    (PredFn::Ge, 50),
    (PredFn::True, 0),
    (PredFn::Lt, 0),
];
fn rp0(v: &Val) -> bool {
    ROUTE_PREDS[0].0.eval(ROUTE_PREDS[0].1, v)
}
fn rp1(v: &Val) -> bool {
    ROUTE_PREDS[1].0.eval(ROUTE_PREDS[1].1, v)
}
fn rp2(v: &Val) -> bool {
    ROUTE_PREDS[2].0.eval(ROUTE_PREDS[2].1, v)
}
fn rp3(v: &Val) -> bool {
    ROUTE_PREDS[3].0.eval(ROUTE_PREDS[3].1, v)
}
fn rp4(v: &Val) -> bool {
    ROUTE_PREDS[4].0.eval(ROUTE_PREDS[4].1, v)
}
fn rp5(v: &Val) -> bool {
    ROUTE_PREDS[5].0.eval(ROUTE_PREDS[5].1, v)
}
fn rp6(v: &Val) -> bool {
    ROUTE_PREDS[6].0.eval(ROUTE_PREDS[6].1, v)
}
const ROUTE_FNS: &[fn(&Val) -> bool] = &[rp0, rp1, rp2, rp3, rp4, rp5, rp6];

fn int_of(v: &Val) -> Val {
    Val::Int(proj(v))
}

fn pair(a: Val, b: Val) -> Val {
    Val::Tup(vec![a, b])
}

/// number of uses of the side input in a body (nested loops included)
pub fn side_uses(body: &[BStage]) -> usize {
    body.iter()
        .map(|s| match s {
            BStage::JoinSide(..) | BStage::MergeSide => 1,
            BStage::Replay(l) | BStage::Iterate(l) | BStage::IterItems(l) | BStage::IterBoth(l) => side_uses(&l.body),
            _ => 0,
        })
        .sum()
}

fn build_body(mut s: P, body: &[BStage], state: IterationStateHandle<i64>, mut sides: Vec<P>) -> P {
    for st in body {
        s = match st.clone() {
            BStage::Map(f, k) => erase(s.map(move |v| f.eval(k, &v))),
            BStage::Filter(f, k) => erase(s.filter(move |v| f.eval(k, v))),
            BStage::FlatMap(f, k) => erase(s.flat_map(move |v| f.eval(k, &v))),
            BStage::Shuffle => erase(s.shuffle()),
            BStage::AddSt(k) => {
                let h = state.clone();
                erase(s.map(move |v| Val::Int(proj(&v) + emod(*h.get(), k))))
            }
            BStage::GbSum(f, k) => erase(
                s.group_by_sum(move |v: &Val| f.eval(k, v), |v| proj(&v))
                    .drop_key()
                    .map(Val::Int),
            ),
            BStage::Reduce(g) => erase(
                s.map(|v| int_of(&v))
                    .reduce(move |a, b| Val::Int(g.glob(proj(&a), proj(&b)))),
            ),
            BStage::GbWin(f, k, n, sl) => erase(
                s.group_by(move |v: &Val| f.eval(k, v))
                    .window(CountWindow::sliding(n, sl))
                    .fold(0i64, |acc: &mut i64, _v: Val| *acc += 1)
                    .unkey()
                    .map(|(k, c)| pair(k, Val::Int(c))),
            ),
            BStage::GbFold(f, k, g) => erase(
                s.group_by_fold(
                    move |v: &Val| f.eval(k, v),
                    0i64,
                    move |acc, v: Val| *acc = g.loc(*acc, proj(&v)),
                    move |acc, p: i64| *acc = g.glob(*acc, p),
                )
                .unkey()
                .map(|(k, c)| pair(k, Val::Int(c))),
            ),
            BStage::JoinSide(f1, k1, f2, k2) => {
                let sd = sides.pop().unwrap_or_else(|| panic!("badcase: no side input"));
                erase(
                    s.join(sd, move |v: &Val| f1.eval(k1, v), move |v: &Val| f2.eval(k2, v))
                        .drop_key()
                        .map(|(l, r)| pair(l, r)),
                )
            }
            BStage::MergeSide => {
                let sd = sides.pop().unwrap_or_else(|| panic!("badcase: no side input"));
                erase(s.merge(sd))
            }
            BStage::Replay(l) => {
                let c = side_uses(&l.body);
                let mine = sides.split_off(sides.len() - c.min(sides.len()));
                build_replay(s, &l, mine)
            }
            BStage::Iterate(l) => {
                let c = side_uses(&l.body);
                let mine = sides.split_off(sides.len() - c.min(sides.len()));
                let (st, out) = build_iterate(s, &l, mine);
                out.for_each(|_| {});
                erase(st.shuffle())
            }
            BStage::IterItems(l) => {
                let c = side_uses(&l.body);
                let mine = sides.split_off(sides.len() - c.min(sides.len()));
                let (st, out) = build_iterate(s, &l, mine);
                st.for_each(|_| {});
                out
            }
            BStage::IterBoth(l) => {
                let c = side_uses(&l.body);
                let mine = sides.split_off(sides.len() - c.min(sides.len()));
                let (st, out) = build_iterate(s, &l, mine);
                erase(out.merge(erase(st.shuffle())))
            }
        };
    }
    s
}

fn build_replay(s: P, l: &LoopSpec, sides: Vec<P>) -> P {
    let body = l.body.clone();
    let agg = l.agg;
    let (cf, ck) = l.cond;
    let out = s.replay(
        l.iters,
        l.init,
        move |s, state| build_body(erase(s), &body, state, sides),
        move |d: &mut i64, x: Val| *d = agg.loc(*d, proj(&x)),
        move |st: &mut i64, d: i64| *st = agg.glob(*st, d),
        move |st: &mut i64| cf.eval(ck, &Val::Int(*st)),
    );
    erase(out.map(Val::Int))
}

fn build_iterate(s: P, l: &LoopSpec, sides: Vec<P>) -> (P, P) {
    let body = l.body.clone();
    let agg = l.agg;
    let (cf, ck) = l.cond;
    let (st, out) = s.iterate(
        l.iters,
        l.init,
        move |s, state| build_body(erase(s), &body, state, sides),
        move |d: &mut i64, x: Val| *d = agg.loc(*d, proj(&x)),
        move |st: &mut i64, d: i64| *st = agg.glob(*st, d),
        move |st: &mut i64| cf.eval(ck, &Val::Int(*st)),
    );
    (erase(st.map(Val::Int)), erase(out))
}

fn all_to_all(s: &BStage) -> bool {
    match s {
        BStage::Shuffle | BStage::GbSum(..) | BStage::GbFold(..) | BStage::GbWin(..) | BStage::JoinSide(..) => true,
        BStage::Replay(l) | BStage::Iterate(l) | BStage::IterItems(l) | BStage::IterBoth(l) => l.body.iter().any(all_to_all),
        _ => false,
    }
}

fn risky_body(body: &[BStage], in_iterate: bool) -> bool {
    (in_iterate && body.iter().any(all_to_all))
        || body.iter().any(|s| match s {
            BStage::Replay(l) => risky_body(&l.body, false),
            BStage::Iterate(l) | BStage::IterItems(l) | BStage::IterBoth(l) => risky_body(&l.body, true),
            _ => false,
        })
}

/// Does the job contain an `iterate` (node or nested stage) with an all-to-all stage in its body?
/// With small batches on >= 2 replicas such a loop can deadlock (known finding F18, tracked under C04).
pub fn has_risky_iterate(job: &Job) -> bool {
    job.nodes.iter().any(|n| match &n.kind {
        Kind::Replay(_, _, l) => risky_body(&l.body, false),
        Kind::Iterate(_, _, l) => risky_body(&l.body, true),
        _ => false,
    })
}

/// the copies of the side stream a loop needs (one per use; drained if unused)
fn side_copies(side: Option<P>, l: &LoopSpec) -> Vec<P> {
    let c = side_uses(&l.body);
    match (side, c) {
        (None, _) => vec![],
        (Some(sd), 0) => {
            sd.for_each(|_| {});
            vec![]
        }
        (Some(sd), 1) => vec![sd],
        (Some(sd), c) => sd.split(c).into_iter().map(erase).collect(),
    }
}

fn build_join(a: P, b: P, v: JVar, ship: Ship, local: Local, k1: (KeyFn, i64), k2: (KeyFn, i64)) -> SVal {
    let f1 = move |x: &Val| k1.0.eval(k1.1, x);
    let f2 = move |x: &Val| k2.0.eval(k2.1, x);
    let j = a.join_with(b, f1, f2);
    let o = Val::opt;
    match ship {
        Ship::Hash => {
            let j = j.ship_hash();
            SVal::K(match (local, v) {
                (Local::Lh, JVar::Inner) => erase_keyed(j.local_hash().inner().map(|(_, (l, r))| pair(l, r))),
                (Local::Lh, JVar::Left) => erase_keyed(j.local_hash().left().map(move |(_, (l, r))| pair(l, o(r)))),
                (Local::Lh, JVar::Outer) => {
                    erase_keyed(j.local_hash().outer().map(move |(_, (l, r))| pair(o(l), o(r))))
                }
                (Local::Sm, JVar::Inner) => {
                    erase_keyed(j.local_sort_merge().inner().map(|(_, (l, r))| pair(l, r)))
                }
                (Local::Sm, JVar::Left) => {
                    erase_keyed(j.local_sort_merge().left().map(move |(_, (l, r))| pair(l, o(r))))
                }
                (Local::Sm, JVar::Outer) => {
                    erase_keyed(j.local_sort_merge().outer().map(move |(_, (l, r))| pair(o(l), o(r))))
                }
            })
        }
        Ship::Bcast => {
            let j = j.ship_broadcast_right();
            SVal::P(match (local, v) {
                (Local::Lh, JVar::Inner) => erase(j.local_hash().inner().map(|(k, (l, r))| pair(k, pair(l, r)))),
                (Local::Lh, _) => erase(j.local_hash().left().map(move |(k, (l, r))| pair(k, pair(l, o(r))))),
                (Local::Sm, JVar::Inner) => {
                    erase(j.local_sort_merge().inner().map(|(k, (l, r))| pair(k, pair(l, r))))
                }
                (Local::Sm, _) => {
                    erase(j.local_sort_merge().left().map(move |(k, (l, r))| pair(k, pair(l, o(r)))))
                }
            })
        }
    }
}

/// How sources batch their output (propagates to all downstream blocks).
#[derive(Clone, Copy, Debug, PartialEq)]
pub enum Batch {
    Default,
    Single,
    Fixed(usize),
    Adaptive(usize, u64),
}

impl Display for Batch {
    fn fmt(&self, f: &mut fmt::Formatter<'_>) -> fmt::Result {
        match self {
            Batch::Default => write!(f, "def"),
            Batch::Single => write!(f, "single"),
            Batch::Fixed(n) => write!(f, "f{n}"),
            Batch::Adaptive(n, ms) => write!(f, "a{n}:{ms}"),
        }
    }
}

impl Batch {
    pub const ALL: &'static [Batch] = &[
        Batch::Default,
        Batch::Single,
        Batch::Fixed(1),
        Batch::Fixed(3),
        Batch::Fixed(1024),
        Batch::Adaptive(8, 5),
    ];
    pub fn parse(s: &str) -> Option<Batch> {
        match s {
            "def" => Some(Batch::Default),
            "single" => Some(Batch::Single),
            _ => {
                if let Some(n) = s.strip_prefix('f') {
                    n.parse().ok().filter(|n| *n > 0).map(Batch::Fixed)
                } else if let Some(r) = s.strip_prefix('a') {
                    let (n, ms) = r.split_once(':')?;
                    Some(Batch::Adaptive(n.parse().ok().filter(|n| *n > 0)?, ms.parse().ok()?))
                } else {
                    None
                }
            }
        }
    }
    pub fn mode(self) -> Option<BatchMode> {
        match self {
            Batch::Default => None,
            Batch::Single => Some(BatchMode::single()),
            Batch::Fixed(n) => Some(BatchMode::fixed(n)),
            Batch::Adaptive(n, ms) => Some(BatchMode::adaptive(n, Duration::from_millis(ms))),
        }
    }
}

struct Builder {
    avail: HashMap<Ref, Vec<SVal>>,
    consumers: HashMap<Ref, usize>,
}

impl Builder {
    fn publish(&mut self, r: Ref, s: SVal) {
        let c = self.consumers.get(&r).copied().unwrap_or(0);
        match (c, s) {
            (0, SVal::P(s)) => s.for_each(|_| {}),
            (0, SVal::K(s)) => s.for_each(|_| {}),
            (1, s) => {
                self.avail.insert(r, vec![s]);
            }
            (c, SVal::P(s)) => {
                let v = s.split(c).into_iter().map(|x| SVal::P(erase(x))).collect();
                self.avail.insert(r, v);
            }
            (c, SVal::K(s)) => {
                let v = s.0.split(c).into_iter().map(|x| SVal::K(KeyedStream(erase(x)))).collect();
                self.avail.insert(r, v);
            }
        }
    }
    fn take(&mut self, r: Ref) -> SVal {
        self.avail.get_mut(&r).and_then(|v| v.pop()).unwrap_or_else(|| panic!("badcase: no stream for {r}"))
    }
    fn p(&mut self, r: Ref) -> P {
        match self.take(r) {
            SVal::P(s) => s,
            SVal::K(_) => panic!("badcase: {r} is keyed"),
        }
    }
    fn k(&mut self, r: Ref) -> K {
        match self.take(r) {
            SVal::K(s) => s,
            SVal::P(_) => panic!("badcase: {r} is not keyed"),
        }
    }
}

/// Attach `job` to `ctx`. Returns one output handle per sink node (in job order).
pub fn build_job(job: &Job, ctx: &StreamContext, batch: Batch) -> Vec<(usize, StreamOutput<Vec<Val>>)> {
    use Kind::*;
    let mut b = Builder { avail: HashMap::new(), consumers: HashMap::new() };
    for n in &job.nodes {
        for r in n.kind.inputs() {
            *b.consumers.entry(r).or_insert(0) += 1;
        }
    }
    let mut sinks = vec![];
    for n in &job.nodes {
        let me = Ref::new(n.id);
        let out: SVal = match n.kind.clone() {
            Iter(l) => {
                let s = ctx.stream_iter(l.into_iter());
                SVal::P(match batch.mode() {
                    Some(m) => erase(s.batch_mode(m)),
                    None => erase(s),
                })
            }
            Par(lo, hi) => {
                let s = ctx.stream_par_iter(lo..hi).map(Val::Int);
                SVal::P(match batch.mode() {
                    Some(m) => erase(s.batch_mode(m)),
                    None => erase(s),
                })
            }
            ParU(lo, hi) => {
                let s = ctx.stream_par_iter(lo..hi).map(|x: u64| Val::Int(x as i64));
                SVal::P(match batch.mode() {
                    Some(m) => erase(s.batch_mode(m)),
                    None => erase(s),
                })
            }
            Map(a, f, k) => SVal::P(erase(b.p(a).map(move |v| f.eval(k, &v)))),
            Filter(a, f, k) => SVal::P(erase(b.p(a).filter(move |v| f.eval(k, v)))),
            FlatMap(a, f, k) => SVal::P(erase(b.p(a).flat_map(move |v| f.eval(k, &v)))),
            Shuffle(a) => SVal::P(erase(b.p(a).shuffle())),
            Repl(a, r) => SVal::P(erase(b.p(a).replication(r.to_replication()))),
            Repart(a, r, f, k) => SVal::P(erase(
                b.p(a).repartition_by(r.to_replication(), move |v: &Val| group_by_hash(&f.eval(k, v))),
            )),
            Bcast(a, g) => SVal::P(erase(
                b.p(a)
                    .broadcast()
                    .map(|v| int_of(&v))
                    .reduce_assoc(move |x, y| Val::Int(g.glob(proj(&x), proj(&y)))),
            )),
            GroupBy(a, f, k) => SVal::K(erase_keyed(b.p(a).group_by(move |v: &Val| f.eval(k, v)))),
            KeyBy(a, f, k) => SVal::K(erase_keyed(b.p(a).key_by(move |v: &Val| f.eval(k, v)))),
            KMap(a, f, k) => SVal::K(erase_keyed(b.k(a).map(move |(_, v)| f.eval(k, &v)))),
            KFilter(a, f, k) => SVal::K(erase_keyed(b.k(a).filter(move |(_, v)| f.eval(k, v)))),
            KFold(a, g) => SVal::K(erase_keyed(
                b.k(a)
                    .fold(0i64, move |acc, v: Val| *acc = g.loc(*acc, proj(&v)))
                    .map(|(_, x)| Val::Int(x)),
            )),
            KReduce(a, g) => SVal::K(erase_keyed(
                b.k(a)
                    .map(|(_, v)| int_of(&v))
                    .reduce(move |x, y| *x = Val::Int(g.glob(proj(x), proj(&y)))),
            )),
            Unkey(a) => SVal::P(erase(b.k(a).unkey().map(|(k, v)| pair(k, v)))),
            DropKey(a) => SVal::P(erase(b.k(a).drop_key())),
            Fold(a, g) => SVal::P(erase(
                b.p(a).fold(0i64, move |acc, v: Val| *acc = g.loc(*acc, proj(&v))).map(Val::Int),
            )),
            FoldA(a, g) => SVal::P(erase(
                b.p(a)
                    .fold_assoc(
                        0i64,
                        move |acc, v: Val| *acc = g.loc(*acc, proj(&v)),
                        move |acc, p: i64| *acc = g.glob(*acc, p),
                    )
                    .map(Val::Int),
            )),
            Reduce(a, g) => SVal::P(erase(
                b.p(a).map(|v| int_of(&v)).reduce(move |x, y| Val::Int(g.glob(proj(&x), proj(&y)))),
            )),
            ReduceA(a, g) => SVal::P(erase(
                b.p(a).map(|v| int_of(&v)).reduce_assoc(move |x, y| Val::Int(g.glob(proj(&x), proj(&y)))),
            )),
            GbFold(a, f, k, g) => SVal::K(erase_keyed(
                b.p(a)
                    .group_by_fold(
                        move |v: &Val| f.eval(k, v),
                        0i64,
                        move |acc, v: Val| *acc = g.loc(*acc, proj(&v)),
                        move |acc, p: i64| *acc = g.glob(*acc, p),
                    )
                    .map(|(_, x)| Val::Int(x)),
            )),
            GbReduce(a, f, k, g) => SVal::K(erase_keyed(
                b.p(a)
                    .map(move |v| (f.eval(k, &v), proj(&v)))
                    .group_by_reduce(|p: &(Val, i64)| p.0.clone(), move |x, y| x.1 = g.glob(x.1, y.1))
                    .map(|(_, p)| Val::Int(p.1)),
            )),
            GbSum(a, f, k) => SVal::K(erase_keyed(
                b.p(a).group_by_sum(move |v: &Val| f.eval(k, v), |v| proj(&v)).map(|(_, x)| Val::Int(x)),
            )),
            GbCount(a, f, k) => SVal::K(erase_keyed(
                b.p(a).group_by_count(move |v: &Val| f.eval(k, v)).map(|(_, c)| Val::Int(c as i64)),
            )),
            KWin(a, size, slide, g) => SVal::K(erase_keyed(
                b.k(a)
                    .window(CountWindow::sliding(size, slide))
                    .fold(0i64, move |acc: &mut i64, v: Val| *acc = g.loc(*acc, proj(&v)))
                    .map(|(_, x)| Val::Int(x)),
            )),
            Merge(x, y) => {
                let (x, y) = (b.p(x), b.p(y));
                SVal::P(erase(x.merge(y)))
            }
            Zip(x, y) => {
                let (x, y) = (b.p(x), b.p(y));
                SVal::P(erase(x.zip(y).map(|(l, r)| pair(l, r))))
            }
            Join(x, y, v, ship, local, f1, k1, f2, k2) => {
                let (x, y) = (b.p(x), b.p(y));
                build_join(x, y, v, ship, local, (f1, k1), (f2, k2))
            }
            KJoin(x, y, v) => {
                let (x, y) = (b.k(x), b.k(y));
                SVal::K(match v {
                    JVar::Inner => erase_keyed(x.join(y).map(|(_, (l, r))| pair(l, r))),
                    _ => erase_keyed(x.join_outer(y).map(|(_, (l, r))| pair(Val::opt(l), Val::opt(r)))),
                })
            }
            KMerge(x, y) => {
                let (x, y) = (b.k(x), b.k(y));
                SVal::K(erase_keyed(x.merge(y)))
            }
            Route(a, ps) => {
                let mut rb = b.p(a).route();
                for p in &ps {
                    let i = ROUTE_PREDS.iter().position(|q| q == p).unwrap_or_else(|| panic!("badcase: route predicate"));
                    rb = rb.add_route(ROUTE_FNS[i]);
                }
                for (j, s) in rb.build().into_iter().enumerate() {
                    b.publish(Ref { id: n.id, port: j }, SVal::P(erase(s)));
                }
                continue;
            }
            Replay(a, sd, l) => {
                let side = sd.map(|r| b.p(r));
                let sides = side_copies(side, &l);
                SVal::P(build_replay(b.p(a), &l, sides))
            }
            Iterate(a, sd, l) => {
                let side = sd.map(|r| b.p(r));
                let sides = side_copies(side, &l);
                let (st, out) = build_iterate(b.p(a), &l, sides);
                b.publish(Ref { id: n.id, port: 0 }, SVal::P(st));
                b.publish(Ref { id: n.id, port: 1 }, SVal::P(out));
                continue;
            }
            Sink(a) => {
                let o = match b.take(a) {
                    SVal::P(s) => s.collect_vec(),
                    SVal::K(s) => s.unkey().map(|(k, v)| pair(k, v)).collect_vec(),
                };
                sinks.push((n.id, o));
                continue;
            }
        };
        b.publish(me, out);
    }
    sinks
}

// ------------------------------------------------------------------------------------------------
// 5. random jobs

/// static knowledge about one output port while generating
#[derive(Clone, Copy, Debug)]
struct Info {
    keyed: bool,
    rep: Rep,
    /// the element sequence (per key) is deterministic: single producer path
    ordered: bool,
    /// keyed and equal keys are co-located (hash partitioned, or a single replica)
    part: bool,
    /// upper bound on the number of elements
    size: usize,
    consumers: usize,
}

#[derive(Clone, Copy, Debug)]
pub struct GenOpts {
    pub loops: bool,
    pub windows: bool,
    pub max_steps: usize,
    /// also generate `replication(Limited(k) | Host)` over forward links from an unlimited block (the
    /// shape of finding F4, fixed in /repo 3deb123); on by default
    pub limited_forward: bool,
    /// one job in `kbin_every` gets a keyed-binary gadget (see `Gen::kbin_gadget`); 0 = never
    pub kbin_every: u64,
}

impl Default for GenOpts {
    fn default() -> Self {
        GenOpts { loops: true, windows: true, max_steps: 9, limited_forward: true, kbin_every: 7 }
    }
}

struct Gen {
    nodes: Vec<Node>,
    outs: Vec<(Ref, Info)>,
    next_id: usize,
    opts: GenOpts,
}

const SIZE_CAP: usize = 3000;

fn gen_k(rng: &mut Rng) -> i64 {
    *rng.pick(&[1, 2, 2, 3, 3, 4, 5, 7])
}

fn gen_map(rng: &mut Rng) -> (MapFn, i64) {
    let f = *rng.pick(&[
        MapFn::Add,
        MapFn::Add,
        MapFn::Mul,
        MapFn::Mod,
        MapFn::Neg,
        MapFn::Pair,
        MapFn::Swap,
        MapFn::Fst,
        MapFn::Snd,
        MapFn::Opt,
        MapFn::Wrap,
        MapFn::Id,
    ]);
    (f, gen_k(rng))
}

fn gen_pred(rng: &mut Rng) -> (PredFn, i64) {
    let f = *rng.pick(PredFn::ALL);
    let k = match f {
        PredFn::Lt | PredFn::Ge => *rng.pick(&[0, 3, 10, 25, 50]),
        _ => gen_k(rng),
    };
    (f, k)
}

fn gen_key(rng: &mut Rng) -> (KeyFn, i64) {
    let f = *rng.pick(&[KeyFn::Kmod, KeyFn::Kmod, KeyFn::Kmod, KeyFn::Kself, KeyFn::Kfst, KeyFn::Kconst, KeyFn::Kpair]);
    (f, gen_k(rng))
}

fn gen_agg(rng: &mut Rng) -> Agg {
    *rng.pick(Agg::ALL)
}

/// An inner loop that ends through its CONDITION after k = 1..3 rounds while max is 3..6: the body ends
/// in a keyed fold under a constant key (one element per round), the state counts the elements, the
/// condition is `state < k`. Executed again by every round of the enclosing loop (seed C01-4: a round
/// counter that survives a condition stop cuts the later executions short).
fn gen_cond_stop_loop(rng: &mut Rng) -> LoopSpec {
    let mut body = vec![];
    for _ in 0..rng.below(3) {
        body.push(match rng.below(4) {
            0 => BStage::Shuffle,
            1 => BStage::AddSt(*rng.pick(&[2, 5, 7])),
            2 => BStage::Map(MapFn::Mul, gen_k(rng)),
            _ => BStage::Map(MapFn::Add, gen_k(rng)),
        });
    }
    body.push(BStage::GbFold(KeyFn::Kconst, 0, *rng.pick(&[Agg::Sum, Agg::Max, Agg::Summod, Agg::Cnt])));
    // mostly k in {2, 3} with k < max <= 2k - 1: two executions accumulate more than max rounds
    let (k, max) = if rng.chance(7, 8) {
        let k = rng.range(2, 3);
        (k, rng.range(k + 1, 2 * k - 1))
    } else {
        (rng.range(1, 3), rng.range(3, 6))
    };
    LoopSpec { iters: max as usize, init: 0, agg: Agg::Cnt, cond: (PredFn::Lt, k), body }
}

/// A random loop. `iterate`: the body output is fed back (no `reduce` at the end: the feedback link
/// is a forward connection into the unlimited loop block). `side`: size of the side input, if any.
fn gen_loop(rng: &mut Rng, depth: usize, iterate: bool, size: usize, side: Option<usize>) -> LoopSpec {
    let n = rng.range(1, 4) as usize;
    let mut body = vec![];
    let mut unlimited = true;
    let mut size = size.max(1);
    let mut side_used = false;
    let mut cond_stop_inner = false;
    for i in 0..n {
        let last = i + 1 == n;
        let st = match rng.below(24) {
            0..=2 => {
                let f = *rng.pick(&[MapFn::Add, MapFn::Mul, MapFn::Mod, MapFn::Neg, MapFn::Id]);
                BStage::Map(f, gen_k(rng))
            }
            3 => {
                let (f, k) = gen_pred(rng);
                BStage::Filter(f, k)
            }
            4 | 5 => {
                unlimited = true;
                BStage::Shuffle
            }
            6 | 7 => BStage::AddSt(*rng.pick(&[2, 5, 7])),
            8 => {
                unlimited = true;
                BStage::GbSum(KeyFn::Kmod, gen_k(rng))
            }
            9 if !iterate && last => {
                unlimited = false;
                BStage::Reduce(*rng.pick(&[Agg::Sum, Agg::Max, Agg::Summod]))
            }
            10 if size <= 100 && !iterate => {
                size *= 2;
                BStage::FlatMap(FlatFn::Dup, 0)
            }
            11 if depth == 0 && unlimited => {
                let l = if rng.chance(1, 2) {
                    cond_stop_inner = true;
                    gen_cond_stop_loop(rng)
                } else {
                    gen_loop(rng, depth + 1, false, size, None)
                };
                size = 1;
                BStage::Replay(Box::new(l))
            }
            12 | 22 | 23 if depth == 0 && unlimited => {
                let l = Box::new(if rng.chance(1, 2) {
                    cond_stop_inner = true;
                    gen_cond_stop_loop(rng)
                } else {
                    gen_loop(rng, depth + 1, true, size, None)
                });
                size += 1;
                match rng.below(3) {
                    0 => BStage::Iterate(l),
                    1 => BStage::IterItems(l),
                    _ => BStage::IterBoth(l),
                }
            }
            13..=15 => {
                // keyed count windows: per-key counts that are / are not multiples of the size
                unlimited = true;
                let w = rng.range(1, 4) as usize;
                let sl = match rng.below(3) {
                    0 => w,
                    1 => 1,
                    _ => rng.range(1, w as i64) as usize,
                };
                let (f, k) = *rng.pick(&[(KeyFn::Kmod, 1), (KeyFn::Kmod, 2), (KeyFn::Kmod, 3), (KeyFn::Kconst, 0), (KeyFn::Kself, 0)]);
                BStage::GbWin(f, k, w, sl)
            }
            16 | 17 => {
                unlimited = true;
                BStage::GbFold(KeyFn::Kmod, gen_k(rng), *rng.pick(&[Agg::Sum, Agg::Cnt, Agg::Max, Agg::Summod]))
            }
            18 | 19 if side.is_some() && !iterate && size * side.unwrap() <= 600 && !side_used => {
                unlimited = true;
                side_used = true;
                size = size * side.unwrap() + 1;
                let (f, k) = (KeyFn::Kmod, gen_k(rng));
                BStage::JoinSide(f, k, f, k)
            }
            20 | 21 if side.is_some() && unlimited && !side_used => {
                side_used = true;
                size += side.unwrap();
                BStage::MergeSide
            }
            _ => BStage::Map(MapFn::Add, 1),
        };
        body.push(st);
    }
    if side.is_some() && !side_used && unlimited {
        body.push(BStage::MergeSide);
    }
    if depth == 0 && unlimited && !cond_stop_inner && rng.chance(1, 5) {
        // make the condition-stopped inner loop a visible share of the programs with loops
        cond_stop_inner = true;
        let l = Box::new(gen_cond_stop_loop(rng));
        body.push(match rng.below(4) {
            0 => BStage::Replay(l),
            1 => BStage::Iterate(l),
            2 => BStage::IterItems(l),
            _ => BStage::IterBoth(l),
        });
    }
    let cond = if rng.chance(1, 2) { (PredFn::True, 0) } else { (PredFn::Lt, *rng.pick(&[50, 500, 5000])) };
    LoopSpec {
        // an inner loop that stops through its condition is executed 2-4 times
        iters: if cond_stop_inner { rng.range(2, 4) as usize } else { rng.range(1, 3) as usize },
        init: rng.range(0, 3),
        agg: *rng.pick(&[Agg::Sum, Agg::Cnt, Agg::Summod, Agg::Sumsq]),
        cond: if cond_stop_inner { (PredFn::True, 0) } else { cond },
        body,
    }
}

impl Gen {
    fn add(&mut self, kind: Kind, infos: Vec<Info>) -> usize {
        let id = self.next_id;
        self.next_id += 1;
        for r in kind.inputs() {
            if let Some(o) = self.outs.iter_mut().find(|o| o.0 == r) {
                o.1.consumers += 1;
            }
        }
        self.nodes.push(Node { id, kind });
        for (port, mut i) in infos.into_iter().enumerate() {
            i.consumers = 0;
            i.size = i.size.min(1_000_000);
            self.outs.push((Ref { id, port }, i));
        }
        id
    }

    fn source(&mut self, rng: &mut Rng) {
        if rng.chance(1, 2) {
            let n = match rng.below(6) {
                0 => 0,
                1 => 1,
                _ => rng.range(2, 40),
            };
            let hi = *rng.pick(&[3, 10, 60]);
            let l: Vec<Val> = (0..n)
                .map(|_| {
                    if rng.chance(1, 10) {
                        pair(Val::Int(rng.range(0, 4)), Val::Int(rng.range(-5, hi)))
                    } else {
                        Val::Int(rng.range(-5, hi))
                    }
                })
                .collect();
            let size = l.len();
            self.add(Kind::Iter(l), vec![Info { keyed: false, rep: Rep::One, ordered: true, part: false, size, consumers: 0 }]);
        } else {
            let lo = rng.range(0, 5);
            let n = match rng.below(6) {
                0 => 0,
                1 => rng.range(1, 3),
                _ => rng.range(4, 200),
            };
            let info = Info { keyed: false, rep: Rep::U, ordered: false, part: false, size: n as usize, consumers: 0 };
            if rng.chance(1, 2) {
                self.add(Kind::Par(lo - 3, lo - 3 + n), vec![info]);
            } else {
                self.add(Kind::ParU(lo as u64, (lo + n) as u64), vec![info]);
            }
        }
    }

    /// index of an output to extend: mostly one without consumers, sometimes any (fan-out)
    fn pick(&self, rng: &mut Rng, pred: impl Fn(&Info) -> bool) -> Option<usize> {
        let free: Vec<usize> = (0..self.outs.len()).filter(|&i| self.outs[i].1.consumers == 0 && pred(&self.outs[i].1)).collect();
        let any: Vec<usize> = (0..self.outs.len()).filter(|&i| pred(&self.outs[i].1)).collect();
        if !free.is_empty() && !rng.chance(1, 5) {
            Some(*rng.pick(&free))
        } else if !any.is_empty() {
            Some(*rng.pick(&any))
        } else {
            None
        }
    }

    /// make output `i` plain (inserting `unkey`) and return its index
    fn plain(&mut self, i: usize) -> usize {
        let (r, inf) = self.outs[i];
        if !inf.keyed {
            return i;
        }
        self.add(Kind::Unkey(r), vec![Info { keyed: false, part: false, ..inf }]);
        self.outs.len() - 1
    }

    /// make output `i` (plain) unlimited by a shuffle
    fn unlimited(&mut self, i: usize) -> usize {
        let (r, inf) = self.outs[i];
        if inf.rep == Rep::U {
            return i;
        }
        self.add(Kind::Shuffle(r), vec![Info { rep: Rep::U, ordered: false, ..inf }]);
        self.outs.len() - 1
    }

    /// a small plain stream from outside the loop to serve as its side input (made unlimited)
    fn pick_side(&mut self, rng: &mut Rng, not: usize) -> Option<(Ref, usize)> {
        if !rng.chance(1, 2) {
            return None;
        }
        let c: Vec<usize> = (0..self.outs.len())
            .filter(|&j| j != not && !self.outs[j].1.keyed && self.outs[j].1.size <= 10)
            .collect();
        if c.is_empty() {
            return None;
        }
        let j = self.unlimited(*rng.pick(&c));
        Some((self.outs[j].0, self.outs[j].1.size))
    }

    fn unary(&mut self, rng: &mut Rng) {
        let Some(i) = self.pick(rng, |_| true) else { return };
        let (r, inf) = self.outs[i];
        let one = |size: usize| Info { keyed: false, rep: Rep::One, ordered: true, part: false, size, consumers: 0 };
        let keyed_u = Info { keyed: true, rep: Rep::U, ordered: false, part: true, size: inf.size, consumers: 0 };
        if inf.keyed {
            match rng.below(14) {
                0..=2 => {
                    let (f, k) = gen_map(rng);
                    self.add(Kind::KMap(r, f, k), vec![inf]);
                }
                3 | 4 => {
                    let (f, k) = gen_pred(rng);
                    self.add(Kind::KFilter(r, f, k), vec![inf]);
                }
                5 | 6 if inf.part => {
                    self.add(Kind::KFold(r, gen_agg(rng)), vec![Info { ordered: false, ..inf }]);
                }
                7 if inf.part => {
                    self.add(Kind::KReduce(r, gen_agg(rng)), vec![Info { ordered: false, ..inf }]);
                }
                8 | 9 if inf.part && self.opts.windows => {
                    let n = rng.range(1, 5) as usize;
                    let s = match rng.below(3) {
                        0 => n,
                        1 => 1,
                        _ => rng.range(1, n as i64) as usize, // 1 <= slide <= size (C12's quantifier)
                    };
                    // an order-sensitive aggregate only on single-producer paths; `cnt` anywhere
                    let g = if inf.ordered && rng.chance(1, 2) { gen_agg(rng) } else { Agg::Cnt };
                    self.add(Kind::KWin(r, n, s, g), vec![Info { ordered: false, ..inf }]);
                }
                10 => {
                    self.add(Kind::DropKey(r), vec![Info { keyed: false, part: false, ..inf }]);
                }
                _ => {
                    self.add(Kind::Unkey(r), vec![Info { keyed: false, part: false, ..inf }]);
                }
            }
            return;
        }
        match rng.below(40) {
            0..=6 => {
                let (f, k) = gen_map(rng);
                self.add(Kind::Map(r, f, k), vec![inf]);
            }
            7..=9 => {
                let (f, k) = gen_pred(rng);
                self.add(Kind::Filter(r, f, k), vec![inf]);
            }
            10 | 11 => {
                let f = *rng.pick(FlatFn::ALL);
                let k = rng.range(1, 4);
                let mult = match f {
                    FlatFn::Dup => 2,
                    FlatFn::Rangex => 3,
                    FlatFn::Unlist => 3,
                    _ => 1,
                };
                if inf.size * mult <= SIZE_CAP {
                    self.add(Kind::FlatMap(r, f, k), vec![Info { size: inf.size * mult, ..inf }]);
                }
            }
            12..=14 => {
                self.add(Kind::Shuffle(r), vec![Info { rep: Rep::U, ordered: false, ..inf }]);
            }
            15 => {
                let ordered = inf.ordered && inf.rep == Rep::One;
                // Limited(k) over a forward link only from an unlimited block (F8: never from fewer replicas)
                let rep = if self.opts.limited_forward && inf.rep == Rep::U { *rng.pick(&[Rep::One, Rep::L(2), Rep::L(3), Rep::Host]) } else { Rep::One };
                self.add(Kind::Repl(r, rep), vec![Info { rep, ordered, ..inf }]);
            }
            16 => {
                let rep = *rng.pick(&[Rep::U, Rep::One, Rep::L(2), Rep::L(3), Rep::Host]);
                let (f, k) = gen_key(rng);
                self.add(Kind::Repart(r, rep, f, k), vec![Info { rep, ordered: false, ..inf }]);
            }
            17 => {
                self.add(Kind::Bcast(r, *rng.pick(&[Agg::Min, Agg::Max])), vec![one(1)]);
            }
            18..=21 => {
                let (f, k) = gen_key(rng);
                let ordered = inf.ordered && inf.rep == Rep::One;
                self.add(Kind::GroupBy(r, f, k), vec![Info { ordered, ..keyed_u }]);
            }
            22 if inf.rep == Rep::One => {
                let (f, k) = gen_key(rng);
                self.add(Kind::KeyBy(r, f, k), vec![Info { keyed: true, part: true, ..inf }]);
            }
            23 => {
                self.add(Kind::Fold(r, gen_agg(rng)), vec![one(1)]);
            }
            24 => {
                self.add(Kind::FoldA(r, gen_agg(rng)), vec![one(1)]);
            }
            25 => {
                self.add(Kind::Reduce(r, gen_agg(rng)), vec![one(1)]);
            }
            26 => {
                self.add(Kind::ReduceA(r, gen_agg(rng)), vec![one(1)]);
            }
            27 => {
                let (f, k) = gen_key(rng);
                self.add(Kind::GbFold(r, f, k, gen_agg(rng)), vec![keyed_u]);
            }
            28 => {
                let (f, k) = gen_key(rng);
                self.add(Kind::GbReduce(r, f, k, gen_agg(rng)), vec![keyed_u]);
            }
            29 => {
                let (f, k) = gen_key(rng);
                self.add(Kind::GbSum(r, f, k), vec![keyed_u]);
            }
            30 => {
                let (f, k) = gen_key(rng);
                self.add(Kind::GbCount(r, f, k), vec![keyed_u]);
            }
            31 | 32 => {
                let n = rng.range(1, 3) as usize;
                let ps: Vec<(PredFn, i64)> = (0..n).map(|_| *rng.pick(ROUTE_PREDS)).collect();
                let infos = vec![inf; n];
                self.add(Kind::Route(r, ps), infos);
            }
            33..=35 if self.opts.loops && inf.size <= 400 => {
                let side = self.pick_side(rng, i);
                let i = self.unlimited(i);
                let (r, inf) = self.outs[i];
                let l = gen_loop(rng, 0, false, inf.size, side.map(|s| s.1));
                self.add(Kind::Replay(r, side.map(|s| s.0), l), vec![Info { rep: Rep::U, ordered: true, size: 1, ..inf }]);
            }
            36 | 37 if self.opts.loops && inf.size <= 400 => {
                let side = self.pick_side(rng, i);
                let i = self.unlimited(i);
                let (r, inf) = self.outs[i];
                let l = gen_loop(rng, 0, true, inf.size, side.map(|s| s.1));
                self.add(
                    Kind::Iterate(r, side.map(|s| s.0), l),
                    vec![
                        Info { rep: Rep::U, ordered: true, size: 1, ..inf },
                        Info { rep: Rep::U, ordered: false, size: inf.size.max(8), ..inf },
                    ],
                );
            }
            _ => {
                let (f, k) = gen_map(rng);
                self.add(Kind::Map(r, f, k), vec![inf]);
            }
        }
    }

    /// A keyed stream with key function `(f, k)` built on the plain output `i` by one of the code paths
    /// that establish co-partitioning by key: 0 = `group_by` (+ optional keyed map / filter / fold),
    /// 1 = a two-phase aggregator (`group_by_fold/reduce/sum/count`), 2 = a hash-shipped join with
    /// itself. Returns the index of the keyed output and the path name.
    fn keyed_by_path(&mut self, rng: &mut Rng, i: usize, f: KeyFn, k: i64, path: u64) -> (usize, &'static str) {
        let (r, inf) = self.outs[i];
        let keyed = Info { keyed: true, rep: Rep::U, ordered: false, part: true, size: inf.size, consumers: 0 };
        match path {
            0 => {
                self.add(Kind::GroupBy(r, f, k), vec![keyed]);
                let mut j = self.outs.len() - 1;
                match rng.below(4) {
                    0 => {
                        let (mf, mk) = gen_map(rng);
                        self.add(Kind::KMap(self.outs[j].0, mf, mk), vec![keyed]);
                        j = self.outs.len() - 1;
                    }
                    1 => {
                        self.add(Kind::KFilter(self.outs[j].0, PredFn::Modnz, 5), vec![keyed]);
                        j = self.outs.len() - 1;
                    }
                    2 => {
                        self.add(Kind::KFold(self.outs[j].0, gen_agg(rng)), vec![keyed]);
                        j = self.outs.len() - 1;
                    }
                    _ => {}
                }
                (j, "groupby")
            }
            1 => {
                let kind = match rng.below(4) {
                    0 => Kind::GbFold(r, f, k, gen_agg(rng)),
                    1 => Kind::GbReduce(r, f, k, gen_agg(rng)),
                    2 => Kind::GbSum(r, f, k),
                    _ => Kind::GbCount(r, f, k),
                };
                self.add(kind, vec![keyed]);
                (self.outs.len() - 1, "aggregate")
            }
            _ => {
                let local = *rng.pick(Local::ALL);
                self.add(Kind::Join(r, r, JVar::Inner, Ship::Hash, local, f, k, f, k), vec![Info { size: inf.size * 4, ..keyed }]);
                (self.outs.len() - 1, "joinhash")
            }
        }
    }

    /// The keyed-binary gadget: two keyed streams with the SAME key function (>= 30 distinct keys, so
    /// that two different hash functions disagree on most keys) produced by two — possibly different —
    /// code paths, combined by a FORWARD keyed binary operator (`KeyedStream::join`, `join_outer`,
    /// `merge` + keyed fold), which does no shuffle because it assumes co-partitioning.
    fn kbin_gadget(&mut self, rng: &mut Rng) {
        // inputs with many distinct values: fresh parallel / iterator sources
        let n1 = rng.range(40, 160);
        let n2 = rng.range(30, 120);
        let plain = |size: usize, rep: Rep| Info { keyed: false, rep, ordered: false, part: false, size, consumers: 0 };
        let lo = rng.range(-3, 5);
        self.add(Kind::Par(lo, lo + n1), vec![plain(n1 as usize, Rep::U)]);
        let i = self.outs.len() - 1;
        let j = if rng.chance(1, 2) {
            i
        } else {
            if rng.chance(1, 2) {
                self.add(Kind::ParU(0, n2 as u64), vec![plain(n2 as usize, Rep::U)]);
            } else {
                let l: Vec<Val> = (0..n2).map(|x| Val::Int((x * 7) % 97 - 10)).collect();
                self.add(Kind::Iter(l), vec![Info { ordered: true, ..plain(n2 as usize, Rep::One) }]);
            }
            self.outs.len() - 1
        };
        let (f, k) = *rng.pick(&[(KeyFn::Kself, 0), (KeyFn::Kmod, 41), (KeyFn::Kmod, 64), (KeyFn::Kpair, 31)]);
        let (pa, pb) = match rng.below(8) {
            0 | 1 => (0, 1),
            2 | 3 => (1, 0),
            4 => (0, 0),
            5 => (1, 1),
            6 => (2, rng.below(2)),
            _ => (rng.below(2), 2),
        };
        let (a, _) = self.keyed_by_path(rng, i, f, k, pa);
        let (b, _) = self.keyed_by_path(rng, j, f, k, pb);
        let (ra, ia) = self.outs[a];
        let (rb, ib) = self.outs[b];
        let size = ia.size + ib.size;
        let keyed = Info { size, ..ia };
        match rng.below(3) {
            0 => {
                self.add(Kind::KJoin(ra, rb, JVar::Inner), vec![Info { size: size * 4, ..keyed }]);
            }
            1 => {
                self.add(Kind::KJoin(ra, rb, JVar::Outer), vec![Info { size: size * 4, ..keyed }]);
            }
            _ => {
                self.add(Kind::KMerge(ra, rb), vec![keyed]);
                let m = self.outs.len() - 1;
                self.add(Kind::KFold(self.outs[m].0, *rng.pick(&[Agg::Sum, Agg::Cnt, Agg::Max, Agg::Summod])), vec![keyed]);
            }
        }
    }

    fn binary(&mut self, rng: &mut Rng) {
        let (Some(i), Some(j)) = (self.pick(rng, |_| true), self.pick(rng, |_| true)) else { return };
        let (a, b) = (self.outs[i].1, self.outs[j].1);
        match rng.below(10) {
            // keyed join of co-partitioned keyed streams
            0..=2 if a.keyed && b.keyed && a.part && b.part && a.rep == b.rep && matches!(a.rep, Rep::U | Rep::One) => {
                let v = *rng.pick(&[JVar::Inner, JVar::Outer]);
                if a.size * b.size <= 4 * SIZE_CAP {
                    let size = a.size * b.size + a.size + b.size;
                    self.add(Kind::KJoin(self.outs[i].0, self.outs[j].0, v), vec![Info { ordered: false, size, ..a }]);
                }
            }
            // zip of two deterministic single-replica streams
            0..=3 if !a.keyed && !b.keyed && a.rep == Rep::One && b.rep == Rep::One && a.ordered && b.ordered => {
                let size = a.size.min(b.size);
                self.add(Kind::Zip(self.outs[i].0, self.outs[j].0), vec![Info { size, ..a }]);
            }
            0..=5 => {
                let (i, j) = (self.plain(i), self.plain(j));
                let (a, b) = (self.outs[i].1, self.outs[j].1);
                if a.size * b.size > 4 * SIZE_CAP {
                    return;
                }
                let v = *rng.pick(JVar::ALL);
                let ship = if v == JVar::Outer || rng.chance(2, 3) { Ship::Hash } else { Ship::Bcast };
                let local = *rng.pick(Local::ALL);
                let (f1, k1) = gen_key(rng);
                let (f2, k2) = if rng.chance(2, 3) { (f1, k1) } else { gen_key(rng) };
                let size = a.size * b.size + a.size + b.size;
                let info = match ship {
                    Ship::Hash => Info { keyed: true, rep: Rep::U, ordered: false, part: true, size, consumers: 0 },
                    Ship::Bcast => Info { keyed: false, rep: a.rep, ordered: false, part: false, size, consumers: 0 },
                };
                self.add(Kind::Join(self.outs[i].0, self.outs[j].0, v, ship, local, f1, k1, f2, k2), vec![info]);
            }
            _ => {
                let (mut i, mut j) = (self.plain(i), self.plain(j));
                if self.outs[i].1.rep != self.outs[j].1.rep {
                    i = self.unlimited(i);
                    j = self.unlimited(j);
                }
                let (a, b) = (self.outs[i].1, self.outs[j].1);
                let size = a.size + b.size;
                self.add(Kind::Merge(self.outs[i].0, self.outs[j].0), vec![Info { ordered: false, size, ..a }]);
            }
        }
    }
}

/// A random well-formed job that avoids F4/F8 (see the module documentation).
pub fn gen_job(rng: &mut Rng, opts: GenOpts) -> Job {
    let mut g = Gen { nodes: vec![], outs: vec![], next_id: 0, opts };
    g.source(rng);
    if rng.chance(2, 5) {
        g.source(rng);
    }
    if opts.kbin_every > 0 && rng.below(opts.kbin_every) == 0 {
        g.kbin_gadget(rng);
    }
    let steps = rng.range(2, opts.max_steps.max(2) as i64);
    for _ in 0..steps {
        if g.outs.len() >= 2 && rng.chance(1, 4) {
            g.binary(rng);
        } else {
            g.unary(rng);
        }
        if g.nodes.len() > 18 {
            break;
        }
    }
    let leaves: Vec<Ref> = g.outs.iter().filter(|o| o.1.consumers == 0).map(|o| o.0).collect();
    for r in leaves {
        g.add(Kind::Sink(r), vec![]);
    }
    Job { nodes: g.nodes }
}

/// The two explicit witnesses of finding F4 (forward link into a block with fewer, but more than one,
/// replicas; fixed in /repo 3deb123), plus a `Host` variant. Run them on >= 4 cores / >= 2 hosts.
pub fn f4_jobs() -> Vec<Job> {
    let r = Ref::new;
    vec![
        Job {
            nodes: vec![
                Node { id: 0, kind: Kind::Par(0, 100) },
                Node { id: 1, kind: Kind::Repl(r(0), Rep::L(3)) },
                Node { id: 2, kind: Kind::Sink(r(1)) },
            ],
        },
        Job {
            nodes: vec![
                Node { id: 0, kind: Kind::ParU(0, 40) },
                Node { id: 1, kind: Kind::Shuffle(r(0)) },
                Node { id: 2, kind: Kind::Map(r(1), MapFn::Add, 1) },
                Node { id: 3, kind: Kind::Repl(r(2), Rep::L(2)) },
                Node { id: 4, kind: Kind::Fold(r(3), Agg::Cnt) },
                Node { id: 5, kind: Kind::Sink(r(4)) },
            ],
        },
        Job {
            nodes: vec![
                Node { id: 0, kind: Kind::Par(0, 60) },
                Node { id: 1, kind: Kind::Repl(r(0), Rep::Host) },
                Node { id: 2, kind: Kind::Map(r(1), MapFn::Add, 1) },
                Node { id: 3, kind: Kind::Sink(r(2)) },
            ],
        },
    ]
}

// ------------------------------------------------------------------------------------------------
// 6. runner

#[derive(Clone, Debug, PartialEq)]
pub enum Config {
    /// `RuntimeConfig::local(n)`
    Local(u64),
    /// one in-process "host" per entry (number of cores), loopback TCP between them
    Remote(Vec<u64>),
}

impl Display for Config {
    fn fmt(&self, f: &mut fmt::Formatter<'_>) -> fmt::Result {
        match self {
            Config::Local(n) => write!(f, "L{n}"),
            Config::Remote(c) => write!(f, "R{}", c.iter().map(|x| x.to_string()).collect::<Vec<_>>().join(":")),
        }
    }
}

impl Config {
    pub fn parse(s: &str) -> Option<Config> {
        if let Some(n) = s.strip_prefix('L') {
            n.parse().ok().filter(|n| *n > 0).map(Config::Local)
        } else if let Some(r) = s.strip_prefix('R') {
            let c: Option<Vec<u64>> = r.split(':').map(|x| x.parse().ok().filter(|n| *n > 0)).collect();
            c.filter(|c| !c.is_empty()).map(Config::Remote)
        } else {
            None
        }
    }
    pub fn total_cores(&self) -> u64 {
        match self {
            Config::Local(n) => *n,
            Config::Remote(c) => c.iter().sum(),
        }
    }
}

#[derive(Clone, Debug, PartialEq)]
pub enum Outcome {
    /// per sink (job order): the collected elements, `None` if no host produced the output
    Done(Vec<(usize, Option<Vec<Val>>)>),
    Panic(String),
    Blocked,
    /// address clash / connect failure: not a property of the engine
    Infra(String),
}

static PANIC_LOG: Mutex<Vec<String>> = Mutex::new(Vec::new());
static UNIQ: AtomicU32 = AtomicU32::new(0);

/// Install a panic hook that records every panic message of the process (engine threads included).
pub fn install_panic_log() {
    std::panic::set_hook(Box::new(|info| {
        let msg = if let Some(s) = info.payload().downcast_ref::<String>() {
            s.clone()
        } else if let Some(s) = info.payload().downcast_ref::<&str>() {
            s.to_string()
        } else {
            "unknown".into()
        };
        if std::env::var("NVH_E2E_DEBUG").is_ok() {
            eprintln!("panic at {:?}: {msg}", info.location().map(|l| format!("{}:{}", l.file(), l.line())));
        }
        if let Ok(mut l) = PANIC_LOG.lock() {
            l.push(msg);
        }
    }));
}

fn panic_log_from(start: usize) -> Vec<String> {
    PANIC_LOG.lock().map(|l| l[start.min(l.len())..].to_vec()).unwrap_or_default()
}

fn panic_log_len() -> usize {
    PANIC_LOG.lock().map(|l| l.len()).unwrap_or(0)
}

/// Only an address clash at START-UP is an infrastructure error (another process holds the
/// loopback address/port). A connect failure after the retry budget, a disconnected channel or any
/// other panic during the run is an outcome of the engine and is reported as `panic:<class>`.
fn is_infra(m: &str) -> bool {
    let m = m.to_lowercase();
    m.contains("failed to bind") || m.contains("address already in use") || m.contains("addrinuse")
}

/// The per-host runtime configurations and the address prefix (remote only).
pub fn host_configs(cfg: &Config, uniq: u32) -> (Vec<RuntimeConfig>, Option<String>) {
    match cfg {
        Config::Local(n) => (vec![RuntimeConfig::local(*n).unwrap()], None),
        Config::Remote(cores) => {
            let pid = std::process::id();
            let a = 1 + pid % 250;
            let b = (pid / 250 + uniq) % 250;
            let base_port = 42000 + ((pid.wrapping_mul(31).wrapping_add(uniq.wrapping_mul(131))) % 18000) as u16;
            let prefix = format!("127.{a}.{b}.");
            let hosts: Vec<HostConfig> = cores
                .iter()
                .enumerate()
                .map(|(h, c)| HostConfig {
                    address: format!("{prefix}{}", 101 + h),
                    base_port,
                    num_cores: *c,
                    ssh: Default::default(),
                    perf_path: None,
                })
                .collect();
            let cfgs = (0..cores.len())
                .map(|h| ConfigBuilder::new_remote().add_hosts(&hosts).host_id(h as u64).build().unwrap())
                .collect();
            (cfgs, Some(prefix))
        }
    }
}

fn payload_msg(e: Box<dyn std::any::Any + Send>) -> String {
    if let Some(s) = e.downcast_ref::<String>() {
        s.clone()
    } else if let Some(s) = e.downcast_ref::<&str>() {
        s.to_string()
    } else {
        "unknown".into()
    }
}

pub const WATCHDOG: Duration = Duration::from_secs(20);

/// Run `build` on every host of `cfg` (each on its own thread with its own `StreamContext`), execute,
/// and hand the per-host value of `finish` back. `None` for a host that did not finish in time.
pub fn run_hosts<S: Send + 'static, R: Send + 'static>(
    cfg: &Config,
    uniq: u32,
    build: impl Fn(&StreamContext) -> S + Send + Sync + 'static,
    finish: impl Fn(S) -> R + Send + Sync + 'static,
    watchdog: Duration,
) -> (Vec<Option<Result<R, String>>>, Option<String>) {
    let (cfgs, prefix) = host_configs(cfg, uniq);
    let n = cfgs.len();
    let (tx, rx) = mpsc::channel();
    let build = Arc::new(build);
    let finish = Arc::new(finish);
    for (h, c) in cfgs.into_iter().enumerate() {
        let tx = tx.clone();
        let (build, finish) = (build.clone(), finish.clone());
        std::thread::Builder::new()
            .name(format!("e2e-host{h}"))
            .spawn(move || {
                let r = std::panic::catch_unwind(std::panic::AssertUnwindSafe(|| {
                    let ctx = StreamContext::new(c);
                    let s = build(&ctx);
                    ctx.execute_blocking();
                    finish(s)
                }));
                let _ = tx.send((h, r.map_err(payload_msg)));
            })
            .unwrap();
    }
    drop(tx);
    let mut res: Vec<Option<Result<R, String>>> = (0..n).map(|_| None).collect();
    let deadline = std::time::Instant::now() + watchdog * crate::load_factor();
    let mut got = 0;
    while got < n {
        let left = deadline.saturating_duration_since(std::time::Instant::now());
        match rx.recv_timeout(left) {
            Ok((h, r)) => {
                res[h] = Some(r);
                got += 1;
            }
            Err(_) => break,
        }
    }
    (res, prefix)
}

/// One engine run of `job` (no retry).
pub fn run_job_once(job: &Job, cfg: &Config, batch: Batch, uniq: u32) -> Outcome {
    let log_start = panic_log_len();
    let j = job.clone();
    let (res, prefix) = run_hosts(
        cfg,
        uniq,
        move |ctx| build_job(&j, ctx, batch),
        |sinks: Vec<(usize, StreamOutput<Vec<Val>>)>| sinks.into_iter().map(|(id, o)| (id, o.get())).collect::<Vec<_>>(),
        WATCHDOG,
    );
    let log = panic_log_from(log_start);
    let mine = |m: &String| is_infra(m) && prefix.as_ref().map_or(false, |p| m.contains(p.as_str()));
    if let Some(m) = log.iter().find(|m| mine(m)) {
        return Outcome::Infra(m.clone());
    }
    let mut sinks: BTreeMap<usize, Option<Vec<Val>>> = job.sinks().into_iter().map(|s| (s, None)).collect();
    let mut panic: Option<String> = None;
    let mut blocked = false;
    for r in res {
        match r {
            None => blocked = true,
            Some(Err(m)) => {
                if is_infra(&m) {
                    return Outcome::Infra(m);
                }
                panic.get_or_insert(m);
            }
            Some(Ok(v)) => {
                for (id, o) in v {
                    if let Some(o) = o {
                        sinks.entry(id).or_insert(None).get_or_insert_with(Vec::new).extend(o);
                    }
                }
            }
        }
    }
    if let Some(m) = panic {
        // `execute_blocking` reports a worker panic as a failed `join().unwrap()`: the first message
        // recorded during the run is more informative
        let first = log.iter().find(|x| !x.contains("called `Result::unwrap()`")).cloned();
        return Outcome::Panic(if m.contains("called `Result::unwrap()`") { first.unwrap_or(m) } else { m });
    }
    if blocked {
        return Outcome::Blocked;
    }
    Outcome::Done(job.sinks().into_iter().map(|s| (s, sinks.remove(&s).flatten())).collect())
}

pub fn next_uniq() -> u32 {
    UNIQ.fetch_add(1, Ordering::SeqCst)
}

/// One engine run; an infrastructure error is retried once on fresh addresses.
pub fn run_job(job: &Job, cfg: &Config, batch: Batch) -> Outcome {
    match run_job_once(job, cfg, batch, next_uniq()) {
        Outcome::Infra(_) => run_job_once(job, cfg, batch, next_uniq()),
        o => o,
    }
}

pub fn sorted_vals(mut v: Vec<Val>) -> Val {
    v.sort_by_cached_key(|x| x.to_string());
    Val::List(v)
}

/// `> ` lines of a run: `sink <id> <sorted list>` per sink | `panic:<class>` | `blocked` | `infra`
pub fn outcome_lines(o: &Outcome) -> Vec<String> {
    match o {
        Outcome::Done(s) => s
            .iter()
            .map(|(id, v)| match v {
                Some(v) => format!("sink {id} {}", sorted_vals(v.clone())),
                None => format!("sink {id} missing"),
            })
            .collect(),
        Outcome::Panic(m) => {
            if std::env::var("NVH_E2E_DEBUG").is_ok() {
                eprintln!("panic message: {m}");
            }
            vec![format!("panic:{}", classify_panic(m))]
        }
        Outcome::Blocked => vec!["blocked".into()],
        Outcome::Infra(_) => vec!["infra".into()],
    }
}

/// Like `nvh::run_main`, but `cases` produces the whole list and `exec` runs on `threads` workers.
pub fn run_main_par(
    cases: impl Fn(u64, usize, &[String]) -> Vec<(String, Case)>,
    exec: impl Fn(&Case) -> Vec<String> + Send + Sync + 'static,
    threads: usize,
) {
    use std::io::Write;
    let args = parse_args();
    install_panic_log();
    let cases: Vec<(String, Case)> = match &args.replay {
        Some(p) => read_cases(p),
        None => cases(args.seed, args.cases, &args.extra),
    };
    let n = cases.len();
    let cases = Arc::new(cases);
    let next = Arc::new(std::sync::atomic::AtomicUsize::new(0));
    let results: Arc<Mutex<Vec<Option<Vec<String>>>>> = Arc::new(Mutex::new(vec![None; n]));
    let exec = Arc::new(exec);
    let mut handles = vec![];
    for _ in 0..threads.max(1).min(n.max(1)) {
        let (cases, next, results, exec) = (cases.clone(), next.clone(), results.clone(), exec.clone());
        handles.push(std::thread::spawn(move || loop {
            let i = next.fetch_add(1, Ordering::SeqCst);
            if i >= cases.len() {
                break;
            }
            let r = match std::panic::catch_unwind(std::panic::AssertUnwindSafe(|| exec(&cases[i].1))) {
                Ok(v) => v,
                Err(e) => vec![format!("panic:{}", classify_panic(&payload_msg(e)))],
            };
            results.lock().unwrap()[i] = Some(r);
        }));
    }
    for h in handles {
        let _ = h.join();
    }
    let out = std::io::stdout();
    let mut out = std::io::BufWriter::new(out.lock());
    let results = results.lock().unwrap();
    for (i, (id, case)) in cases.iter().enumerate() {
        writeln!(out, "case {id} {}", case.header.join(" ")).unwrap();
        for op in &case.ops {
            writeln!(out, "{}", op.join(" ")).unwrap();
        }
        for r in results[i].clone().unwrap_or_else(|| vec!["panic:harness".into()]) {
            writeln!(out, "> {r}").unwrap();
        }
        writeln!(out, "end").unwrap();
    }
    out.flush().unwrap();
    // detached (blocked) engine threads must not keep the process alive
    drop(out);
    std::process::exit(0);
}

/// The standard `e2e` case: header `e2e <config> <batch>`, op lines = the job.
pub fn exec_case(c: &Case) -> Vec<String> {
    let cfg = c.header.get(1).and_then(|s| Config::parse(s)).expect("bad config");
    let batch = c.header.get(2).and_then(|s| Batch::parse(s)).expect("bad batch mode");
    let job = Job::from_ops(&c.ops);
    if job.nodes.is_empty() {
        return vec![];
    }
    outcome_lines(&run_job(&job, &cfg, batch))
}

pub fn gen_config(rng: &mut Rng, class: usize) -> Config {
    match class % 3 {
        0 => Config::Local(*rng.pick(&[1, 2])),
        1 => Config::Local(*rng.pick(&[3, 4, 7])),
        _ => {
            // 2-3 hosts, or (1 in 3) a 4-host heterogeneous layout
            let h = if rng.chance(1, 3) { 4 } else { rng.range(2, 3) };
            let mut cores: Vec<u64> = (0..h).map(|_| rng.range(1, 3) as u64).collect();
            if h == 4 {
                cores[0] = 1;
                cores[3] = 3;
            }
            Config::Remote(cores)
        }
    }
}

/// `n` cases: every job is run under 3 configurations (small local, larger local, multi-host) with a
/// random batch mode each; the last four cases are the former F4 witnesses (local and 2 hosts).
pub fn gen_cases(seed: u64, n: usize, opts: GenOpts) -> Vec<(String, Case)> {
    let mut rng = Rng::new(seed);
    let mut out = vec![];
    let mut j = 0;
    while out.len() < n {
        let mut r = rng.fork();
        let job = gen_job(&mut r, opts);
        let risky = has_risky_iterate(&job);
        for class in 0..3 {
            if out.len() >= n {
                break;
            }
            let cfg = gen_config(&mut r, class);
            let mut batch = match *r.pick(Batch::ALL) {
                Batch::Adaptive(..) => Batch::Adaptive(*r.pick(&[1, 2, 8, 100]), *r.pick(&[1, 5, 20])),
                b => b,
            };
            // region of the known engine defect F18 (iterate + all-to-all body stage, small batches, >= 2
            // replicas: intermittent deadlock, a blocked run costs the whole watchdog): kept, but only one
            // in four such combinations, so that the quick tier stays stable
            let small = matches!(batch, Batch::Single | Batch::Fixed(1) | Batch::Fixed(3))
                || matches!(batch, Batch::Adaptive(n, _) if n <= 8);
            if small && risky && cfg.total_cores() >= 2 && !r.chance(1, 4) {
                batch = *r.pick(&[Batch::Default, Batch::Fixed(1024), Batch::Adaptive(100, 5)]);
            }
            let mut c = Case::new(&["e2e", &cfg.to_string(), &batch.to_string()]);
            c.ops = job.to_ops();
            out.push((format!("e2e-{seed}-{j}-{class}"), c));
        }
        j += 1;
    }
    if n >= 12 {
        // the witnesses of finding F4 (fixed in /repo 3deb123) as ordinary regression cases
        for (i, job) in f4_jobs().into_iter().enumerate() {
            for cfg in ["L4", "R2:2"] {
                let mut c = Case::new(&["e2e", cfg, "def"]);
                c.ops = job.to_ops();
                out.push((format!("e2e-{seed}-f4-{i}-{cfg}"), c));
            }
        }
    }
    out
}
